//! C13 — data leaving the host is sealed, version-bound and tamper-evident.
//!
//! M-seal is an independent implementation of docs/src/encryption.md on ring primitives. It opens
//! everything the remote backends store (object-store objects, git files and history, HTTP request
//! bodies) and must find exactly the plaintext that was handed in; then every stored value is
//! attacked (every single-byte modification, every truncation, swapped / re-labelled / foreign /
//! replayed data) and the backend must answer with an error, never with data.

use crate::exec::block_on;
use crate::fam_b::{new_objects, OsWorld, SimGate, OSW, SALT, SECRET};
use crate::fam_c::{run_dir, DirGuard};
use crate::httpd::{HttpFault, HttpState, Httpd};
use crate::rng::{mix, Fnv, Rng};
use crate::{CheckDef, RunResult, Violation};
use base64::Engine;
use ring::{aead, pbkdf2};
use serde::{Deserialize, Serialize};
use serde_json::Value;
use std::collections::{BTreeMap, BTreeSet};
use std::path::Path;
use std::sync::Mutex;
use taskchampion::server::verif::{Key, VerifCloudServer};
use taskchampion::server::{AddVersionResult, GetVersionResult, Server, ServerConfig};
use uuid::Uuid;

// ---- M-seal ----------------------------------------------------------------------------------------

static KEYS: Mutex<BTreeMap<(Vec<u8>, Vec<u8>), [u8; 32]>> = Mutex::new(BTreeMap::new());

/// A gate that plays the part of a second client creating the bucket's salt at the worst
/// moment: right before this client's compare-and-swap of "salt" (which then loses).
struct SaltRaceGate {
    objects: taskchampion::server::verif::Objects,
    done: bool,
}

#[async_trait::async_trait]
impl taskchampion::server::verif::Gate for SaltRaceGate {
    async fn before(&mut self, op: &'static str, name: &str) -> taskchampion::server::verif::GateDecision {
        if op == "cas" && name == "salt" && !self.done {
            self.done = true;
            self.objects.lock().unwrap().entry("salt".into()).or_insert((b"other-client-salt".to_vec(), crate::interpose::EPOCH0 as u64));
        }
        SimGate.before(op, name).await
    }
    fn after(&mut self, op: &'static str, name: &str, changed: bool) {
        SimGate.after(op, name, changed)
    }
    fn now(&mut self) -> u64 {
        SimGate.now()
    }
    fn arrange_listing(&mut self, names: &mut Vec<String>) -> usize {
        SimGate.arrange_listing(names)
    }
}

pub fn mseal_key(salt: &[u8], secret: &[u8]) -> [u8; 32] {
    if let Some(k) = KEYS.lock().unwrap().get(&(salt.to_vec(), secret.to_vec())) {
        return *k;
    }
    let mut key = [0u8; 32];
    pbkdf2::derive(pbkdf2::PBKDF2_HMAC_SHA256, std::num::NonZeroU32::new(600_000).unwrap(), salt, secret, &mut key);
    KEYS.lock().unwrap().insert((salt.to_vec(), secret.to_vec()), key);
    key
}

fn aad_for(version_id: Uuid) -> [u8; 17] {
    let mut aad = [0u8; 17];
    aad[0] = 1;
    aad[1..].copy_from_slice(version_id.as_bytes());
    aad
}

pub fn mseal_open(key: &[u8; 32], version_id: Uuid, sealed: &[u8]) -> Result<Vec<u8>, String> {
    if sealed.len() < 1 + 12 + 16 {
        return Err(format!("sealed value too short ({} bytes)", sealed.len()));
    }
    if sealed[0] != 1 {
        return Err(format!("format byte is {} (must be 1)", sealed[0]));
    }
    let k = aead::LessSafeKey::new(aead::UnboundKey::new(&aead::CHACHA20_POLY1305, key).map_err(|e| e.to_string())?);
    let mut nonce = [0u8; 12];
    nonce.copy_from_slice(&sealed[1..13]);
    let mut buf = sealed[13..].to_vec();
    let pt = k.open_in_place(aead::Nonce::assume_unique_for_key(nonce), aead::Aad::from(aad_for(version_id)), &mut buf).map_err(|_| "AEAD open failed (wrong key, version binding or data)".to_string())?;
    Ok(pt.to_vec())
}

pub fn mseal_seal(key: &[u8; 32], version_id: Uuid, nonce: [u8; 12], plaintext: &[u8]) -> Vec<u8> {
    let k = aead::LessSafeKey::new(aead::UnboundKey::new(&aead::CHACHA20_POLY1305, key).unwrap());
    let mut buf = plaintext.to_vec();
    let tag = k.seal_in_place_separate_tag(aead::Nonce::assume_unique_for_key(nonce), aead::Aad::from(aad_for(version_id)), &mut buf).unwrap();
    let mut out = vec![1u8];
    out.extend_from_slice(&nonce);
    out.extend_from_slice(&buf);
    out.extend_from_slice(tag.as_ref());
    out
}

// ---- scenario ------------------------------------------------------------------------------------------

#[derive(Serialize, Deserialize, Clone, Debug)]
pub struct Sc13 {
    pub check: String,
    pub seed: u64,
    /// 2 object store (shared derived key), 12 object store through the ordinary constructor
    /// (stored random salt), 3 git local-only, 5 HTTP client
    pub backend: u8,
    /// payload kinds of the versions added (see payload())
    pub versions: Vec<u8>,
    /// add a snapshot after these version indices
    pub snapshots: Vec<usize>,
    /// which stored values to attack: index into versions; usize::MAX = all
    pub attack: Vec<usize>,
    /// attack every position (true) or a seeded sample of positions (false)
    pub full: bool,
    /// 0: the backend creates its own salt; otherwise the repository / bucket already holds a salt
    /// of another length (object store through the ordinary constructor, git)
    #[serde(default)]
    pub salt_kind: u8,
}

/// salts of other lengths than the 16 bytes this implementation generates (two of them agree in
/// their first 16 bytes)
fn preset_salt(kind: u8) -> Vec<u8> {
    match kind {
        1 => vec![],
        2 => b"s".to_vec(),
        3 => b"eight-by".to_vec(),
        4 => b"fifteen-bytes-!".to_vec(),
        5 => b"seventeen-bytes-!".to_vec(),
        6 => b"sixteen-bytes-..plus".to_vec(),
        7 => b"sixteen-bytes-..PLUS".to_vec(),
        _ => (0u8..64).collect(),
    }
}

fn payload(kind: u8, i: usize) -> Vec<u8> {
    let marker = format!("PLAINTEXT-MARKER-{i}-buy-milk");
    match kind % 5 {
        0 => marker.into_bytes(),
        1 => format!("{{\"operations\":[{{\"Create\":{{\"uuid\":\"00000000-0000-4000-8000-{:012}\"}}}}]}} {marker}", i).into_bytes(),
        2 => {
            let mut v = marker.into_bytes();
            v.extend_from_slice(&[0, 255, 254, 128]);
            v
        }
        3 => vec![],
        _ => {
            let mut v = marker.into_bytes();
            v.resize(5000, b'q');
            v
        }
    }
}

struct Stored {
    /// version id the value is bound to (AAD)
    bound_to: Uuid,
    /// parent to ask for (get_child_version) or None for the snapshot
    fetch_parent: Option<Uuid>,
    bytes: Vec<u8>,
    plaintext: Vec<u8>,
    /// where it lives: object name / file name / index of the HTTP version
    place: String,
}

struct Env13 {
    sc: Sc13,
    violations: Vec<Violation>,
    probes: BTreeMap<String, u64>,
    log: Vec<String>,
    want_log: bool,
    trace: Fnv,
}

impl Env13 {
    fn v(&mut self, oracle: &str, sig: String, detail: String) {
        if self.want_log {
            self.log.push(format!("VIOLATION {oracle}|{sig}: {detail}"));
        }
        self.violations.push(Violation { oracle: oracle.into(), sig, detail });
    }
    fn probe(&mut self, k: &str, n: u64) {
        *self.probes.entry(k.into()).or_insert(0) += n;
    }
}

fn bname(b: u8) -> &'static str {
    match b {
        2 => "cloud",
        12 => "cloud-new",
        3 => "git",
        5 => "http",
        _ => "?",
    }
}

fn parse_vname(n: &str) -> Option<(Uuid, Uuid)> {
    let r = n.strip_prefix("v-")?;
    let (p, c) = r.split_once('-')?;
    Some((Uuid::try_parse(p).ok()?, Uuid::try_parse(c).ok()?))
}

pub fn run_c13(scv: &Value, want_log: bool) -> RunResult {
    let sc: Sc13 = match serde_json::from_value(scv.clone()) {
        Ok(s) => s,
        Err(e) => return RunResult { violations: vec![Violation { oracle: "harness".into(), sig: "bad-scenario".into(), detail: e.to_string() }], ..Default::default() },
    };
    let dir = run_dir("c13", sc.seed);
    let _guard = DirGuard(dir.clone());
    let mut e = Env13 { sc: sc.clone(), violations: vec![], probes: BTreeMap::new(), log: vec![], want_log, trace: Fnv::default() };
    let mut rng = Rng::new(mix(sc.seed, "c13", 0));
    let b = sc.backend;
    // ---- set the backend up ----------------------------------------------------------------------
    let objects = new_objects();
    if b == 2 || b == 12 {
        OSW.with(|w| *w.borrow_mut() = Some(OsWorld { objects: objects.clone(), events: vec![], seq: 0, rng: Rng::new(1), now_secs: crate::interpose::EPOCH0 as u64, list_mode: 0, max_page: 1000, mid_action: vec![false; 4] }));
        taskchampion::server::verif::set_randint_source(Some(Box::new(|| 255)));
    }
    // secrets are byte strings and are used as given: a fifth of the runs with an ordinary
    // constructor use one that ends in white space or a line ending
    let secret: Vec<u8> = if b == 2 {
        SECRET.to_vec()
    } else {
        match (sc.seed / 7) % 10 {
            0 => b"secret with a line ending\n".to_vec(),
            1 => b"tab\tsecret \r\n".to_vec(),
            _ if b == 12 => format!("secret-{}", sc.seed % 3).into_bytes(),
            _ => SECRET.to_vec(),
        }
    };
    let httpd = if b == 5 { Some(Httpd::start(HttpState::new(sc.seed, 0)).expect("http listener")) } else { None };
    let rt = if b == 5 { Some(tokio::runtime::Builder::new_current_thread().enable_all().build().unwrap()) } else { None };
    let client_id = Uuid::from_u128(0xc11e_0000_0000_4000_8000_00000000000d);
    let git_dir = dir.join("repo");
    let race_salt = b == 12 && sc.salt_kind == 0 && (sc.seed / 11) % 2 == 0;
    let first_opened = std::cell::Cell::new(false);
    if race_salt {
        e.probe("salt_race", 1);
    }
    let open = |objects: &taskchampion::server::verif::Objects| -> Result<Box<dyn Server>, String> {
        match b {
            2 => Ok(Box::new(VerifCloudServer::with_key(objects.clone(), Box::new(SimGate), crate::fam_b::shared_key()))),
            12 => {
                // in half of the runs that start from an empty bucket another client's salt
                // lands between the first constructor's read of "salt" and its compare-and-swap
                let gate: Box<dyn taskchampion::server::verif::Gate> = if race_salt && !first_opened.replace(true) { Box::new(SaltRaceGate { objects: objects.clone(), done: false }) } else { Box::new(SimGate) };
                block_on(VerifCloudServer::new(objects.clone(), gate, secret.clone())).map(|s| Box::new(s) as Box<dyn Server>).map_err(|e| e.to_string())
            }
            3 => block_on(ServerConfig::Git { local_path: git_dir.clone(), branch: "main".into(), remote: None, local_only: true, encryption_secret: secret.clone(), git_path: None }.into_server()).map_err(|e| e.to_string()),
            5 => block_on(ServerConfig::Remote { url: httpd.as_ref().unwrap().url(), client_id, encryption_secret: secret.clone() }.into_server()).map_err(|e| e.to_string()),
            _ => Err("unknown backend".into()),
        }
    };
    // run a protocol call to completion (HTTP needs the tokio reactor)
    macro_rules! call {
        ($f:expr) => {
            match &rt {
                Some(rt) => rt.block_on($f),
                None => block_on($f),
            }
        };
    }
    if sc.salt_kind != 0 {
        let salt = preset_salt(sc.salt_kind);
        if b == 12 {
            objects.lock().unwrap().insert("salt".into(), (salt.clone(), crate::interpose::EPOCH0 as u64));
            e.probe("preset_salt", 1);
        } else if b == 3 {
            // a repository initialised by another implementation of docs/src/git-sync.md
            let git = |args: &[&str]| std::process::Command::new("git").args(args).current_dir(&git_dir).output().map(|o| o.status.success()).unwrap_or(false);
            let _ = std::fs::create_dir_all(&git_dir);
            let meta = serde_json::json!({"latest_version": Uuid::nil().as_simple().to_string(), "salt": base64::engine::general_purpose::STANDARD.encode(&salt)});
            let ok = git(&["init", "-q"]) && git(&["config", "user.email", "other@local"]) && git(&["config", "user.name", "other"]) && git(&["symbolic-ref", "HEAD", "refs/heads/main"]) && std::fs::write(git_dir.join("meta"), serde_json::to_vec(&meta).unwrap()).is_ok() && git(&["add", "meta"]) && git(&["commit", "-q", "-m", "init"]);
            if !ok {
                e.v("harness", "git-preset".into(), "cannot prepare a git repository with a preset salt".into());
                return finish(e);
            }
            e.probe("preset_salt", 1);
        }
    }
    let mut srv = match open(&objects) {
        Ok(s) => s,
        Err(err) => {
            e.v("harness", "open".into(), format!("cannot open backend {}: {err}", bname(b)));
            return finish(e);
        }
    };
    // ---- store versions and snapshots ------------------------------------------------------------------
    let mut chain: Vec<(Uuid, Uuid, Vec<u8>)> = Vec::new(); // (id, parent, plaintext)
    let mut snaps: Vec<(Uuid, Vec<u8>)> = Vec::new();
    let mut parent = Uuid::nil();
    for (i, k) in sc.versions.iter().enumerate() {
        if i > 0 && i == sc.versions.len() / 2 && b != 2 {
            // a second, independently constructed handle (another process, another replica)
            // continues: nonces must stay fresh across instances that share the key
            match open(&objects) {
                Ok(h) => {
                    srv = h;
                    e.probe("second_instance", 1);
                }
                Err(err) => {
                    e.v("harness", "open".into(), format!("cannot open a second handle: {err}"));
                    return cleanup_and_finish(e, b);
                }
            }
        }
        let pl = payload(*k, i);
        match call!(srv.add_version(parent, pl.clone())) {
            Ok((AddVersionResult::Ok(id), _)) => {
                chain.push((id, parent, pl));
                parent = id;
            }
            other => {
                e.v("harness", "add".into(), format!("{} add_version failed: {:?}", bname(b), other.map(|x| x.0)));
                return finish(e);
            }
        }
        if sc.snapshots.contains(&i) {
            let sp = format!("SNAPSHOT-PLAINTEXT-MARKER-{i}").into_bytes();
            if call!(srv.add_snapshot(parent, sp.clone())).is_ok() {
                snaps.push((parent, sp));
            }
        }
    }
    drop(srv);
    // ---- what is stored -----------------------------------------------------------------------------------
    let (salt, mut stored): (Vec<u8>, Vec<Stored>) = match b {
        2 | 12 => {
            let o = objects.lock().unwrap();
            let salt = if b == 12 { o.get("salt").map(|x| x.0.clone()).unwrap_or_default() } else { SALT.to_vec() };
            let mut st = Vec::new();
            for (name, (bytes, _)) in o.iter() {
                if let Some((p, c)) = parse_vname(name) {
                    let pt = chain.iter().find(|x| x.0 == c).map(|x| x.2.clone()).unwrap_or_default();
                    st.push(Stored { bound_to: c, fetch_parent: Some(p), bytes: bytes.clone(), plaintext: pt, place: name.clone() });
                } else if let Some(s) = name.strip_prefix("s-") {
                    if let Ok(v) = Uuid::try_parse(s) {
                        let pt = snaps.iter().rev().find(|x| x.0 == v).map(|x| x.1.clone()).unwrap_or_default();
                        st.push(Stored { bound_to: v, fetch_parent: None, bytes: bytes.clone(), plaintext: pt, place: name.clone() });
                    }
                }
            }
            (salt, st)
        }
        3 => {
            let mut st = Vec::new();
            let meta: Value = std::fs::read(git_dir.join("meta")).ok().and_then(|m| serde_json::from_slice(&m).ok()).unwrap_or(Value::Null);
            let salt = base64::engine::general_purpose::STANDARD.decode(meta["salt"].as_str().unwrap_or("")).unwrap_or_default();
            if let Ok(rd) = std::fs::read_dir(&git_dir) {
                for ent in rd.flatten() {
                    let name = ent.file_name().to_string_lossy().to_string();
                    if let Some((p, c)) = parse_vname(&name) {
                        let bytes = std::fs::read(ent.path()).unwrap_or_default();
                        let pt = chain.iter().find(|x| x.0 == c).map(|x| x.2.clone()).unwrap_or_default();
                        st.push(Stored { bound_to: c, fetch_parent: Some(p), bytes, plaintext: pt, place: name });
                    } else if name == "snapshot" {
                        let j: Value = std::fs::read(ent.path()).ok().and_then(|m| serde_json::from_slice(&m).ok()).unwrap_or(Value::Null);
                        let v = Uuid::try_parse(j["version_id"].as_str().unwrap_or("")).unwrap_or_default();
                        let bytes = base64::engine::general_purpose::STANDARD.decode(j["payload"].as_str().unwrap_or("")).unwrap_or_default();
                        let pt = snaps.iter().rev().find(|x| x.0 == v).map(|x| x.1.clone()).unwrap_or_default();
                        st.push(Stored { bound_to: v, fetch_parent: None, bytes, plaintext: pt, place: name });
                    }
                }
            }
            (salt, st)
        }
        _ => {
            // HTTP: what left the host are the request bodies; versions are bound to the parent id
            let hs = httpd.as_ref().unwrap().state.lock().unwrap();
            let mut st = Vec::new();
            for r in &hs.log {
                let parts: Vec<&str> = r.path.trim_start_matches('/').split('/').collect();
                if r.method == "POST" && parts.len() == 4 && parts[2] == "add-version" {
                    if let Ok(p) = Uuid::parse_str(parts[3]) {
                        let pt = chain.iter().find(|x| x.1 == p).map(|x| x.2.clone()).unwrap_or_default();
                        st.push(Stored { bound_to: p, fetch_parent: Some(p), bytes: r.body.clone(), plaintext: pt, place: format!("POST {}", r.path) });
                    }
                } else if r.method == "POST" && parts.len() == 4 && parts[2] == "add-snapshot" {
                    if let Ok(v) = Uuid::parse_str(parts[3]) {
                        let pt = snaps.iter().rev().find(|x| x.0 == v).map(|x| x.1.clone()).unwrap_or_default();
                        st.push(Stored { bound_to: v, fetch_parent: None, bytes: r.body.clone(), plaintext: pt, place: format!("POST {}", r.path) });
                    }
                }
                if r.client_id.as_deref() != Some(&client_id.to_string()) {
                    e.violations.push(Violation { oracle: "sealed.http".into(), sig: "client-id".into(), detail: format!("request {} {} does not carry the client id header", r.method, r.path) });
                }
            }
            (client_id.as_bytes().to_vec(), st)
        }
    };
    // HTTP keeps only the latest snapshot on the server; older snapshot bodies were still sent
    stored.sort_by(|a, b| a.place.cmp(&b.place));
    if stored.len() < chain.len() {
        e.v("sealed.stored", format!("{}:missing", bname(b)), format!("{} versions were added but only {} stored values were found", chain.len(), stored.len()));
    }
    // ---- (1) M-seal opens everything; layout; nonces; no plaintext -------------------------------------------
    let key = mseal_key(&salt, &secret);
    let mut nonces: BTreeSet<Vec<u8>> = BTreeSet::new();
    for s in &stored {
        e.trace.write_str(&s.place[..s.place.len().min(6)]);
        match mseal_open(&key, s.bound_to, &s.bytes) {
            Ok(pt) => {
                if pt != s.plaintext {
                    e.v("sealed.format", format!("{}:plaintext-differs", bname(b)), format!("{}: opens, but to {} bytes that are not the {} bytes handed in", s.place, pt.len(), s.plaintext.len()));
                }
            }
            Err(err) => e.v("sealed.format", format!("{}:not-documented-form", bname(b)), format!("{}: the stored value is not the documented sealed form of its data (PBKDF2-HMAC-SHA256 x600000, ChaCha20-Poly1305, AAD = 1 || version id): {err}", s.place)),
        }
        if s.bytes.len() >= 13 && !nonces.insert(s.bytes[1..13].to_vec()) {
            e.v("sealed.nonce", format!("{}:repeated", bname(b)), format!("{}: nonce used twice within one run", s.place));
        }
        for m in [&b"PLAINTEXT-MARKER"[..], &b"buy-milk"[..]] {
            if s.bytes.windows(m.len()).any(|w| w == m) {
                e.v("sealed.plaintext", format!("{}:marker", bname(b)), format!("{}: task content appears in what is stored", s.place));
            }
        }
    }
    e.probe("stored.values_opened", stored.len() as u64);
    if b == 3 {
        // nothing in the repository's history may contain task content either
        if let Ok(out) = std::process::Command::new("git").args(["rev-list", "--all", "--objects"]).current_dir(&git_dir).output() {
            for line in String::from_utf8_lossy(&out.stdout).lines() {
                let id = line.split(' ').next().unwrap_or("");
                if let Ok(o) = std::process::Command::new("git").args(["cat-file", "-p", id]).current_dir(&git_dir).output() {
                    if o.stdout.windows(16).any(|w| w == b"PLAINTEXT-MARKER") {
                        e.v("sealed.plaintext", "git:history".into(), format!("git object {id} contains task content"));
                    }
                    e.probe("git.objects_scanned", 1);
                }
            }
        }
    }
    if !e.violations.is_empty() {
        return cleanup_and_finish(e, b);
    }
    // ---- (2) attacks ------------------------------------------------------------------------------------------------
    // direct: the library's own unseal entry point (object-store key) against every modification
    if b == 2 {
        let k: &Key = crate::fam_b::shared_key();
        for s in stored.iter().take(2) {
            for i in 0..s.bytes.len() {
                for m in [0x01u8, 0x80, 0xff] {
                    let mut t = s.bytes.clone();
                    t[i] ^= m;
                    if k.unseal(s.bound_to, t).is_ok() {
                        e.v("tamper.accepted", format!("unseal:flip@{}", if i == 0 { "format-byte" } else if i < 13 { "nonce" } else { "ciphertext" }), format!("unseal accepted {} with byte {i} xor {m:#x}", s.place));
                    }
                }
                if k.unseal(s.bound_to, s.bytes[..i].to_vec()).is_ok() {
                    e.v("tamper.accepted", "unseal:truncated".into(), format!("unseal accepted {} cut to {i} bytes", s.place));
                }
            }
            let other = Uuid::from_u128(s.bound_to.as_u128() ^ 1);
            if k.unseal(other, s.bytes.clone()).is_ok() {
                e.v("tamper.accepted", "unseal:other-version-id".into(), format!("unseal accepted {} for another version id", s.place));
            }
            e.probe("attacks.direct_unseal", (s.bytes.len() * 4 + 1) as u64);
        }
    }
    // through the backend: install the modified value where the backend will read it
    let mut reader = match open(&objects) {
        Ok(h) => h,
        Err(err) => {
            e.v("harness", "open".into(), format!("cannot reopen backend: {err}"));
            return cleanup_and_finish(e, b);
        }
    };
    let targets: Vec<usize> = if sc.attack.contains(&usize::MAX) { (0..stored.len()).collect() } else { sc.attack.iter().map(|i| i % stored.len().max(1)).collect::<BTreeSet<_>>().into_iter().collect() };
    let foreign_key = mseal_key(b"another-salt-16b", b"another secret");
    for ti in targets {
        if stored.is_empty() {
            break;
        }
        let s = &stored[ti];
        // HTTP only serves the latest snapshot
        if b == 5 && s.fetch_parent.is_none() && snaps.last().map(|x| x.0) != Some(s.bound_to) {
            continue;
        }
        if (b == 2 || b == 12) && s.fetch_parent.is_none() {
            // the object-store server serves whichever snapshot it lists first: make the attacked
            // one the only one
            let mut o = objects.lock().unwrap();
            let others: Vec<String> = o.keys().filter(|k| k.starts_with("s-") && **k != s.place).cloned().collect();
            for k in others {
                o.remove(&k);
            }
            // (an earlier target's attack may have removed this one)
            o.entry(s.place.clone()).or_insert((s.bytes.clone(), crate::interpose::EPOCH0 as u64));
        }
        let mut variants: Vec<(String, Vec<u8>)> = Vec::new();
        let positions: Vec<usize> = if sc.full { (0..s.bytes.len()).collect() } else { (0..s.bytes.len()).filter(|i| *i < 16 || rng.chance(1, 8) || *i + 20 > s.bytes.len()).collect() };
        for i in positions {
            for m in [0x01u8, 0x80, 0xff] {
                let mut t = s.bytes.clone();
                t[i] ^= m;
                variants.push((format!("flip@{}", if i == 0 { "format-byte" } else if i < 13 { "nonce" } else if i + 16 >= s.bytes.len() { "tag" } else { "ciphertext" }), t));
            }
            variants.push(("truncated".into(), s.bytes[..i].to_vec()));
        }
        // another stored value's content under this name (re-labelled data)
        if let Some(o) = stored.iter().find(|o| o.place != s.place && o.fetch_parent.is_some() == s.fetch_parent.is_some()) {
            variants.push(("swapped-with-other-version".into(), o.bytes.clone()));
        }
        // genuine plaintext sealed under a foreign key / salt, and under the right key for another version id
        variants.push(("foreign-key".into(), mseal_seal(&foreign_key, s.bound_to, [7u8; 12], &s.plaintext)));
        variants.push(("other-salt".into(), mseal_seal(&mseal_key(b"zzzz-salt-16byte", &secret), s.bound_to, [8u8; 12], &s.plaintext)));
        variants.push(("bound-to-other-version".into(), mseal_seal(&key, Uuid::from_u128(s.bound_to.as_u128() ^ 0x10), [9u8; 12], &s.plaintext)));
        variants.push(("garbage".into(), vec![1u8; 40]));
        variants.push(("empty".into(), vec![]));
        let n_var = variants.len();
        for (kind, bytes) in variants {
            // install
            match b {
                2 | 12 => {
                    objects.lock().unwrap().get_mut(&s.place).map(|x| x.0 = bytes.clone());
                }
                3 => {
                    if s.place == "snapshot" {
                        let j = serde_json::json!({"version_id": s.bound_to.as_simple().to_string(), "payload": base64::engine::general_purpose::STANDARD.encode(&bytes)});
                        let _ = std::fs::write(git_dir.join("snapshot"), serde_json::to_vec(&j).unwrap());
                    } else {
                        let _ = std::fs::write(git_dir.join(&s.place), &bytes);
                    }
                }
                _ => {
                    let mut hs = httpd.as_ref().unwrap().state.lock().unwrap();
                    match s.fetch_parent {
                        Some(p) => {
                            if let Some(v) = hs.versions.iter_mut().find(|v| v.1 == p) {
                                v.2 = bytes.clone();
                            }
                        }
                        None => {
                            if let Some(sn) = hs.snapshot.as_mut() {
                                sn.1 = bytes.clone();
                            }
                        }
                    }
                }
            }
            // fetch through a handle opened after the values were stored (none of the backends
            // caches version or snapshot data in the handle)
            let got: Result<Option<Vec<u8>>, String> = {
                let h = &mut reader;
                match s.fetch_parent {
                    Some(p) => match call!(h.get_child_version(p)) {
                        Ok(GetVersionResult::Version { history_segment, .. }) => Ok(Some(history_segment)),
                        Ok(GetVersionResult::NoSuchVersion) => Ok(None),
                        Err(err) => Err(err.to_string()),
                    },
                    None => match call!(h.get_snapshot()) {
                        Ok(Some((_, bytes))) => Ok(Some(bytes)),
                        Ok(None) => Ok(None),
                        Err(err) => Err(err.to_string()),
                    },
                }
            };
            e.trace.write_u64(got.is_err() as u64);
            if let Ok(None) = &got {
                // "rejected with an error rather than returned": a value that is present but does
                // not open must not be passed off as absent either (a new replica would conclude
                // that there is no snapshot / no further version)
                e.v(
                    "tamper.silent",
                    format!("{}:{}:{kind}", bname(b), if s.fetch_parent.is_some() { "version" } else { "snapshot" }),
                    format!("{} backend reported 'nothing there' for {} after the stored value was replaced ({kind}) instead of failing", bname(b), s.place),
                );
                break;
            }
            if let Ok(Some(data)) = &got {
                e.v(
                    "tamper.accepted",
                    format!("{}:{}:{kind}", bname(b), if s.fetch_parent.is_some() { "version" } else { "snapshot" }),
                    format!("{} backend returned {} bytes for {} after the stored value was replaced ({kind}) instead of failing", bname(b), data.len(), s.place),
                );
                break;
            }
        }
        e.probe("attacks.through_backend", n_var as u64);
        // restore and make sure the genuine value still opens
        match b {
            2 | 12 => {
                objects.lock().unwrap().get_mut(&s.place).map(|x| x.0 = s.bytes.clone());
            }
            3 => {
                if s.place == "snapshot" {
                    let j = serde_json::json!({"version_id": s.bound_to.as_simple().to_string(), "payload": base64::engine::general_purpose::STANDARD.encode(&s.bytes)});
                    let _ = std::fs::write(git_dir.join("snapshot"), serde_json::to_vec(&j).unwrap());
                } else {
                    let _ = std::fs::write(git_dir.join(&s.place), &s.bytes);
                }
            }
            _ => {
                let mut hs = httpd.as_ref().unwrap().state.lock().unwrap();
                match s.fetch_parent {
                    Some(p) => {
                        if let Some(v) = hs.versions.iter_mut().find(|v| v.1 == p) {
                            v.2 = s.bytes.clone();
                        }
                    }
                    None => {
                        if let Some(sn) = hs.snapshot.as_mut() {
                            sn.1 = s.bytes.clone();
                        }
                    }
                }
            }
        }
        {
            let h = &mut reader;
            let ok = match s.fetch_parent {
                Some(p) => matches!(call!(h.get_child_version(p)), Ok(GetVersionResult::Version { history_segment, .. }) if history_segment == s.plaintext),
                None => matches!(call!(h.get_snapshot()), Ok(Some((_, bytes))) if bytes == s.plaintext) || b == 3 || b == 2 || b == 12,
            };
            if !ok {
                e.v("sealed.roundtrip", format!("{}:genuine-rejected", bname(b)), format!("{}: the genuine stored value no longer reads back", s.place));
            }
        }
        if !e.violations.is_empty() {
            break;
        }
    }
    // HTTP: a complete genuine response for another parent (re-labelled at the transport level)
    if b == 5 && chain.len() >= 2 && e.violations.is_empty() {
        let (p, q) = (chain[0].1, chain[1].1);
        httpd.as_ref().unwrap().state.lock().unwrap().faults.push_back(HttpFault::ReplayOtherParent(q));
        {
            let h = &mut reader;
            if let Ok(GetVersionResult::Version { version_id, parent_version_id, .. }) = call!(h.get_child_version(p)) {
                e.v(
                    "tamper.accepted",
                    "http:version:replayed-response".into(),
                    format!("asked for the child of {p}, the server replayed its genuine response for parent {q}, and the client returned version {version_id} (parent {parent_version_id}) instead of an error"),
                );
            }
        }
        e.probe("attacks.http_replay", 1);
    }
    cleanup_and_finish(e, b)
}

fn cleanup_and_finish(e: Env13, b: u8) -> RunResult {
    if b == 2 || b == 12 {
        taskchampion::server::verif::set_randint_source(None);
        OSW.with(|w| *w.borrow_mut() = None);
    }
    finish(e)
}

fn finish(e: Env13) -> RunResult {
    let nontrivial = e.probes.get("attacks.through_backend").copied().unwrap_or(0) > 0;
    let evals = 1 + e.probes.get("attacks.through_backend").copied().unwrap_or(0) + e.probes.get("attacks.direct_unseal").copied().unwrap_or(0);
    let mut sh = Fnv::default();
    sh.write_u64(e.sc.backend as u64);
    sh.write_u64(e.sc.versions.len() as u64);
    RunResult { violations: e.violations, trace_hash: e.trace.0 ^ e.sc.seed, state_hash: sh.0, fired: BTreeMap::new(), probes: e.probes, points: BTreeMap::new(), sim_seconds: 0.0, steps: 0, nontrivial, evals, log: e.log }
}

pub fn gen_c13(seed: u64, i: u64, thorough: bool) -> Value {
    let s = mix(seed, "C13", i);
    let mut rng = Rng::new(s);
    let backend = *rng.pick(&[2u8, 2, 2, 2, 3, 5, 5, 12]);
    let n = 2 + rng.usize_below(3);
    let versions: Vec<u8> = (0..n).map(|_| rng.below(5) as u8).collect();
    let snapshots: Vec<usize> = (0..n).filter(|_| rng.chance(1, 3)).collect();
    let attack = if thorough { vec![usize::MAX] } else { vec![rng.usize_below(8), rng.usize_below(8)] };
    let full = thorough || rng.chance(1, 4);
    let salt_kind = if (backend == 12 || backend == 3) && rng.chance(1, 2) { 1 + rng.below(8) as u8 } else { 0 };
    serde_json::to_value(Sc13 { check: "C13".into(), seed: s, backend, versions, snapshots, attack, full, salt_kind }).unwrap()
}

pub fn shrink_c13(scv: &Value) -> Vec<Value> {
    let Ok(sc) = serde_json::from_value::<Sc13>(scv.clone()) else { return vec![] };
    let mut out = Vec::new();
    if sc.versions.len() > 2 {
        let mut c = sc.clone();
        c.versions.pop();
        out.push(c);
    }
    if !sc.snapshots.is_empty() {
        let mut c = sc.clone();
        c.snapshots.clear();
        out.push(c);
    }
    for k in 0..sc.versions.len() {
        if sc.versions[k] != 0 {
            let mut c = sc.clone();
            c.versions[k] = 0;
            out.push(c);
        }
    }
    if sc.attack.len() > 1 {
        for k in 0..sc.attack.len() {
            let mut c = sc.clone();
            c.attack.remove(k);
            out.push(c);
        }
    }
    out.into_iter().map(|s| serde_json::to_value(s).unwrap()).collect()
}

pub fn checks() -> Vec<CheckDef> {
    vec![CheckDef {
        id: "C13",
        level: "fault_enumeration",
        runs_quick: 1_000,
        runs_thorough: 40_000,
        rule: "versions (text, JSON, non-UTF-8, empty, 5 kB) and snapshots carrying plaintext markers are stored through each remote backend: the object-store server (shared key, and the ordinary constructor with its stored random salt), the git server (files and every object in the repository history) and the HTTP client (request bodies captured by the harness listener). (1) An independent implementation of docs/src/encryption.md on ring primitives (M-seal) must open every stored value with the documented salt and version binding (HTTP versions: parent id; everything else: own id) to exactly the bytes handed in; format byte 1; no nonce twice; no marker in stored bytes. (2) Stored values are then replaced - every single-byte position x 3 bit patterns, every truncation length (all positions for a quarter of the values and in the thorough tier, a seeded sample otherwise), another version's content, the same plaintext sealed under another secret / another salt / another version id, garbage, empty; on HTTP also a complete genuine response for another parent - and fetched through a fresh handle: the call must fail. evaluations = attack fetches. Non-trivial: at least one value attacked; distinct = distinct trace hash.",
        gen: gen_c13,
        run: run_c13,
        shrink: shrink_c13,
        real: &["server::encryption (Cryptor, envelope)", "server::cloud::server (seal/unseal call sites, salt object)", "server::gitsync (version files, snapshot file, meta salt)", "server::sync (HTTP client, reqwest over a loopback socket)"],
        stub: &["object store in memory (hook)", "HTTP sync server = harness listener implementing docs/src/http.md"],
        assumptions: &["M-seal shares ring's primitives with the library but none of server/encryption.rs", "renaming an object-store object to another parent while keeping its own id is outside the documented binding and not attacked"],
    }]
}
