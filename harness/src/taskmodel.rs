//! M-task: an independent model of the documented task model (docs/src/tasks.md) for editing
//! sessions through the high-level `Task` API (C19). The clock is the simulator's.

use crate::fam_a::{commit_ops, fired_total, task_uuid, World};
use crate::interpose::{self, EPOCH0};
use crate::model::{self, Props};
use crate::simstorage::{self, SimStorage};
use serde::{Deserialize, Serialize};
use std::cell::RefCell;
use std::collections::{BTreeMap, BTreeSet};
use std::rc::Rc;
use taskchampion::chrono::{TimeZone, Utc};
use taskchampion::{Annotation, Operation, Operations, Replica, Status, Tag};
use uuid::Uuid;

#[derive(Serialize, Deserialize, Clone, Debug, PartialEq)]
pub enum Mut {
    /// 0 pending 1 completed 2 deleted 3 recurring
    SetStatus(u8),
    SetDescription(String),
    SetPriority(String),
    SetEntry(Option<i64>),
    SetWait(Option<i64>),
    SetDue(Option<i64>),
    SetModified(i64),
    Start,
    Stop,
    Done,
    AddTag(String),
    RemoveTag(String),
    AddAnnotation(i64, String),
    RemoveAnnotation(i64),
    SetUda(String, String),
    RemoveUda(String),
    AddDep(u8),
    RemoveDep(u8),
    SetValue(String, Option<String>),
}

fn status_of(i: u8) -> (Status, &'static str) {
    match i % 4 {
        0 => (Status::Pending, "pending"),
        1 => (Status::Completed, "completed"),
        2 => (Status::Deleted, "deleted"),
        _ => (Status::Recurring, "recurring"),
    }
}

fn is_known_key(k: &str) -> bool {
    matches!(k, "description" | "due" | "modified" | "start" | "status" | "priority" | "wait" | "end" | "entry") || k.starts_with("tag_") || k.starts_with("annotation_") || k.starts_with("dep_")
}

/// docs: a user tag is valid if it does not start with whitespace, a digit or one of
/// "+-*/()<>^!%=~", contains no whitespace or ':' afterwards, is non-empty; all-uppercase
/// words are reserved for synthetic tags.
fn valid_user_tag(t: &str) -> bool {
    let mut ch = t.chars();
    let Some(c) = ch.next() else { return false };
    if t.chars().all(|c| c.is_ascii_uppercase()) {
        return false;
    }
    if c.is_whitespace() || c.is_ascii_digit() || "+-*/()<>^!%=~".contains(c) {
        return false;
    }
    ch.all(|c| !(c.is_whitespace() || c == ':'))
}

const SYNTHETIC: &[&str] = &["WAITING", "ACTIVE", "PENDING", "COMPLETED", "DELETED", "BLOCKED", "UNBLOCKED", "BLOCKING"];

struct Session {
    p: Props,
    updated_modified: bool,
    now: i64,
}

impl Session {
    fn set_value(&mut self, k: &str, v: Option<String>) {
        if k != "modified" && !self.updated_modified {
            self.p.insert("modified".into(), self.now.to_string());
        }
        self.updated_modified = true;
        match v {
            Some(v) => {
                self.p.insert(k.to_string(), v);
            }
            None => {
                self.p.remove(k);
            }
        }
    }
    fn set_status(&mut self, s: &str) {
        match s {
            "pending" | "recurring" => {
                if self.p.contains_key("end") {
                    self.set_value("end", None);
                }
            }
            _ => {
                if !self.p.contains_key("end") {
                    let now = self.now;
                    self.set_value("end", Some(now.to_string()));
                }
            }
        }
        self.set_value("status", Some(s.to_string()));
    }
}

fn ts(x: i64) -> taskchampion::chrono::DateTime<Utc> {
    Utc.timestamp_opt(EPOCH0 + x, 0).unwrap()
}

/// derive the model's dependency map: for tasks in the working set, `dep_<uuid>` keys whose
/// target exists with status pending
pub(crate) fn model_depmap(tasks: &model::TaskSet, ws: &[Option<Uuid>]) -> BTreeSet<(Uuid, Uuid)> {
    let mut e = BTreeSet::new();
    for u in ws.iter().flatten() {
        if let Some(p) = tasks.get(u) {
            for k in p.keys() {
                if let Some(d) = k.strip_prefix("dep_") {
                    if let Ok(d) = Uuid::parse_str(d) {
                        if tasks.get(&d).and_then(|t| t.get("status")).map(|s| s == "pending").unwrap_or(false) {
                            e.insert((*u, d));
                        }
                    }
                }
            }
        }
    }
    e
}

pub(crate) async fn do_edit(n: usize, a: usize, w: &Rc<RefCell<World>>, replica: &mut Replica<SimStorage>, t: u8, at: i64, muts: &[Mut]) {
    let f0 = fired_total();
    let uuid = task_uuid(t);
    let now = EPOCH0 + at;
    interpose::set_now_ns(now * 1_000_000_000 + 123_456_789);
    let before = simstorage::read_store(&w.borrow().stores[n]);
    let mut ops = Operations::new();
    let mut task = match replica.create_task(uuid, &mut ops).await {
        Ok(t) => t,
        Err(_) => {
            interpose::set_now_ns(w.borrow().now_ns);
            return;
        }
    };
    let mut m = Session { p: before.tasks.get(&uuid).cloned().unwrap_or_default(), updated_modified: false, now };
    let mut errs: Vec<String> = Vec::new();
    for mu in muts {
        let r: Result<(), taskchampion::Error> = match mu {
            Mut::SetStatus(s) => {
                let (st, name) = status_of(*s);
                m.set_status(name);
                task.set_status(st, &mut ops)
            }
            Mut::SetDescription(d) => {
                m.set_value("description", Some(d.clone()));
                task.set_description(d.clone(), &mut ops)
            }
            Mut::SetPriority(d) => {
                m.set_value("priority", Some(d.clone()));
                task.set_priority(d.clone(), &mut ops)
            }
            Mut::SetEntry(x) => {
                m.set_value("entry", x.map(|x| (EPOCH0 + x).to_string()));
                task.set_entry(x.map(ts), &mut ops)
            }
            Mut::SetWait(x) => {
                m.set_value("wait", x.map(|x| (EPOCH0 + x).to_string()));
                task.set_wait(x.map(ts), &mut ops)
            }
            Mut::SetDue(x) => {
                m.set_value("due", x.map(|x| (EPOCH0 + x).to_string()));
                task.set_due(x.map(ts), &mut ops)
            }
            Mut::SetModified(x) => {
                m.set_value("modified", Some((EPOCH0 + x).to_string()));
                task.set_modified(ts(*x), &mut ops)
            }
            Mut::Start => {
                if !m.p.contains_key("start") {
                    let nw = m.now;
                    m.set_value("start", Some(nw.to_string()));
                }
                task.start(&mut ops)
            }
            Mut::Stop => {
                m.set_value("start", None);
                task.stop(&mut ops)
            }
            Mut::Done => {
                m.set_status("completed");
                task.done(&mut ops)
            }
            Mut::AddTag(tag) | Mut::RemoveTag(tag) => {
                let add = matches!(mu, Mut::AddTag(_));
                match Tag::try_from(tag.as_str()) {
                    Ok(tg) => {
                        let synthetic = SYNTHETIC.contains(&tag.as_str());
                        if valid_user_tag(tag) == synthetic {
                            errs.push(format!("tag {tag:?}: parsed as {} but the documented syntax says otherwise", if synthetic { "synthetic" } else { "user" }));
                        }
                        let r = if add { task.add_tag(&tg, &mut ops) } else { task.remove_tag(&tg, &mut ops) };
                        if synthetic {
                            if r.is_ok() {
                                errs.push(format!("synthetic tag {tag} was accepted by {}", if add { "add_tag" } else { "remove_tag" }));
                            }
                            Ok(())
                        } else {
                            m.set_value(&format!("tag_{tag}"), if add { Some(String::new()) } else { None });
                            r
                        }
                    }
                    Err(_) => {
                        if valid_user_tag(tag) || SYNTHETIC.contains(&tag.as_str()) {
                            errs.push(format!("valid tag {tag:?} was rejected"));
                        }
                        Ok(())
                    }
                }
            }
            Mut::AddAnnotation(x, d) => {
                m.set_value(&format!("annotation_{}", EPOCH0 + x), Some(d.clone()));
                task.add_annotation(Annotation { entry: ts(*x), description: d.clone() }, &mut ops)
            }
            Mut::RemoveAnnotation(x) => {
                m.set_value(&format!("annotation_{}", EPOCH0 + x), None);
                task.remove_annotation(ts(*x), &mut ops)
            }
            Mut::SetUda(k, v) => {
                let r = task.set_user_defined_attribute(k.clone(), v.clone(), &mut ops);
                if is_known_key(k) {
                    if r.is_ok() {
                        errs.push(format!("reserved name {k:?} was accepted as a user-defined attribute"));
                    }
                    Ok(())
                } else {
                    m.set_value(k, Some(v.clone()));
                    r
                }
            }
            Mut::RemoveUda(k) => {
                let r = task.remove_user_defined_attribute(k.clone(), &mut ops);
                if is_known_key(k) {
                    if r.is_ok() {
                        errs.push(format!("reserved name {k:?} was accepted by remove_user_defined_attribute"));
                    }
                    Ok(())
                } else {
                    m.set_value(k, None);
                    r
                }
            }
            Mut::AddDep(d) => {
                m.set_value(&format!("dep_{}", task_uuid(*d)), Some(String::new()));
                task.add_dependency(task_uuid(*d), &mut ops)
            }
            Mut::RemoveDep(d) => {
                m.set_value(&format!("dep_{}", task_uuid(*d)), None);
                task.remove_dependency(task_uuid(*d), &mut ops)
            }
            Mut::SetValue(k, v) => {
                m.set_value(k, v.clone());
                task.set_value(k.clone(), v.clone(), &mut ops)
            }
        };
        if let Err(e) = r {
            errs.push(format!("{mu:?} failed: {e}"));
        }
    }
    // what the caller holds
    let held: Props = task.clone().into_task_data().iter().map(|(k, v)| (k.clone(), v.clone())).collect();
    // each recorded update carries the value the property really had before
    {
        let mut cur = before.tasks.get(&uuid).cloned();
        for op in &ops {
            match op {
                Operation::Create { .. } => cur = Some(Props::new()),
                Operation::Update { property, old_value, value, .. } => {
                    let real = cur.as_ref().and_then(|c| c.get(property)).cloned();
                    if *old_value != real {
                        errs.push(format!("recorded old value of {property} is {old_value:?}, the property really was {real:?}"));
                    }
                    if let Some(c) = cur.as_mut() {
                        match value {
                            Some(v) => {
                                c.insert(property.clone(), v.clone());
                            }
                            None => {
                                c.remove(property);
                            }
                        }
                    }
                }
                _ => {}
            }
        }
    }
    let nops = ops.len();
    commit_ops(n, a, w, replica, ops, f0).await;
    let faulted = fired_total() > f0;
    let after = simstorage::read_store(&w.borrow().stores[n]);
    let stored = after.tasks.get(&uuid).cloned();
    // reads through a fresh Task, with the dependency map recomputed
    let mut read_errs: Vec<String> = Vec::new();
    if !faulted {
        let dm = replica.dependency_map(true).await;
        let fresh = replica.get_task(uuid).await;
        if let (Ok(dm), Ok(Some(ft))) = (dm, fresh) {
            let exp_edges = model_depmap(&after.tasks, &after.working_set);
            let mut got_edges = BTreeSet::new();
            for u in after.tasks.keys() {
                for d in dm.dependencies(*u) {
                    got_edges.insert((*u, d));
                }
            }
            if got_edges != exp_edges {
                read_errs.push(format!("dependency map {:?} differs from the stored statuses and dep_ keys {:?}", got_edges, exp_edges));
            }
            let mp = &m.p;
            let mut exp_tags: BTreeSet<String> = mp.keys().filter_map(|k| k.strip_prefix("tag_")).filter(|t| valid_user_tag(t)).map(|s| s.to_string()).collect();
            let status = mp.get("status").map(|s| s.as_str()).unwrap_or("pending");
            if mp.get("wait").and_then(|x| x.parse::<i64>().ok()).map(|x| x > now).unwrap_or(false) {
                exp_tags.insert("WAITING".into());
            }
            if mp.contains_key("start") {
                exp_tags.insert("ACTIVE".into());
            }
            match status {
                "pending" => {
                    exp_tags.insert("PENDING".into());
                }
                "completed" => {
                    exp_tags.insert("COMPLETED".into());
                }
                "deleted" => {
                    exp_tags.insert("DELETED".into());
                }
                _ => {}
            }
            if exp_edges.iter().any(|e| e.0 == uuid) {
                exp_tags.insert("BLOCKED".into());
            } else {
                exp_tags.insert("UNBLOCKED".into());
            }
            if exp_edges.iter().any(|e| e.1 == uuid) {
                exp_tags.insert("BLOCKING".into());
            }
            let got_tags: BTreeSet<String> = ft.get_tags().map(|t| t.to_string()).collect();
            if got_tags != exp_tags {
                read_errs.push(format!("tags read back {:?}, the task model gives {:?}", got_tags, exp_tags));
            }
            let exp_ann: BTreeSet<(i64, String)> = mp.iter().filter_map(|(k, v)| k.strip_prefix("annotation_").and_then(|x| x.parse::<i64>().ok()).map(|x| (x, v.clone()))).collect();
            let got_ann: BTreeSet<(i64, String)> = ft.get_annotations().map(|a| (a.entry.timestamp(), a.description)).collect();
            if got_ann != exp_ann {
                read_errs.push(format!("annotations read back {:?}, written {:?}", got_ann, exp_ann));
            }
            let exp_deps: BTreeSet<Uuid> = mp.keys().filter_map(|k| k.strip_prefix("dep_")).filter_map(|d| Uuid::parse_str(d).ok()).collect();
            let got_deps: BTreeSet<Uuid> = ft.get_dependencies().collect();
            if got_deps != exp_deps {
                read_errs.push(format!("dependencies read back {:?}, written {:?}", got_deps, exp_deps));
            }
            let exp_udas: BTreeMap<String, String> = mp.iter().filter(|(k, _)| !is_known_key(k)).map(|(k, v)| (k.clone(), v.clone())).collect();
            let got_udas: BTreeMap<String, String> = ft.get_user_defined_attributes().map(|(k, v)| (k.to_string(), v.to_string())).collect();
            if got_udas != exp_udas {
                read_errs.push(format!("user-defined attributes read back {:?}, written {:?}", got_udas, exp_udas));
            }
            let (_, sname) = match status {
                "pending" => status_of(0),
                "completed" => status_of(1),
                "deleted" => status_of(2),
                "recurring" => status_of(3),
                _ => (Status::Unknown(status.to_string()), "unknown"),
            };
            let got_status = ft.get_status();
            let got_name = match &got_status {
                Status::Pending => "pending",
                Status::Completed => "completed",
                Status::Deleted => "deleted",
                Status::Recurring => "recurring",
                _ => "unknown",
            };
            if got_name != sname {
                read_errs.push(format!("status reads {got_name}, stored {status}"));
            }
        }
    }
    interpose::set_now_ns(w.borrow().now_ns);
    let mut wb = w.borrow_mut();
    for e in errs {
        wb.violation("task.mutator", "api", format!("node {n} action {a} (task {}): {e}", model::short(&uuid)));
    }
    for e in read_errs {
        wb.violation("task.read", "model", format!("node {n} action {a} (task {}): {e}", model::short(&uuid)));
    }
    if !faulted && nops > 0 {
        if stored.as_ref() != Some(&held) {
            wb.violation("task.stored", "held-vs-stored", format!("node {n} action {a}: after commit the stored task {:?} differs from the task object the caller held {:?}", stored, held));
        }
        if held != m.p {
            wb.violation("task.model", "rules", format!("node {n} action {a}: mutators {:?} at now={now} on {:?}\n  gave     {:?}\n  expected {:?}", muts, before.tasks.get(&uuid), held, m.p));
        }
        wb.probe("edit.sessions");
    }
    wb.log(|| format!("n{n} a{a} edit {} at={at} {} mutators", model::short(&uuid), muts.len()));
}


/// The older convenience methods of `Replica` (deprecated but public): each is one commit whose
/// effect on the store is compared with what its documentation says.
#[allow(deprecated)]
pub(crate) async fn do_legacy(n: usize, a: usize, w: &Rc<RefCell<World>>, replica: &mut Replica<SimStorage>, kind: u8, t: u8, arg: u8, at: i64) {
    let f0 = fired_total();
    let uuid = task_uuid(t);
    let now = EPOCH0 + at;
    interpose::set_now_ns(now * 1_000_000_000 + 5);
    let before = simstorage::read_store(&w.borrow().stores[n]);
    let mut errs: Vec<String> = Vec::new();
    let mut what = String::new();
    match kind % 5 {
        0 => {
            let (st, sname) = status_of(arg);
            let desc = format!("legacy task {n}.{a}");
            what = format!("new_task({sname})");
            match replica.new_task(st, desc.clone()).await {
                Ok(task) => {
                    let after = simstorage::read_store(&w.borrow().stores[n]);
                    let u = task.get_uuid();
                    let mut exp = Props::new();
                    exp.insert("modified".into(), now.to_string());
                    exp.insert("description".into(), desc);
                    exp.insert("status".into(), sname.to_string());
                    exp.insert("entry".into(), now.to_string());
                    if before.tasks.contains_key(&u) {
                        errs.push(format!("new_task reused the id of an existing task {u}"));
                    }
                    if after.tasks.get(&u) != Some(&exp) {
                        errs.push(format!("new_task stored {:?}, documented: modified, description, status and entry = {:?}", after.tasks.get(&u), exp));
                    }
                    let in_ws = after.working_set.iter().flatten().any(|x| *x == u);
                    if in_ws != (sname == "pending" || sname == "recurring") {
                        errs.push(format!("new_task({sname}): task in working set = {in_ws}"));
                    }
                    let mut others = after.tasks.clone();
                    others.remove(&u);
                    if others != before.tasks {
                        errs.push("new_task changed other tasks".to_string());
                    }
                }
                Err(e) => {
                    if fired_total() == f0 {
                        errs.push(format!("new_task failed: {e}"));
                    }
                }
            }
        }
        1 => {
            let prop = ["description", "project", "status", "p0"][arg as usize % 4];
            let val = if arg % 3 == 0 { None } else { Some(format!("legacy{n}.{a}")) };
            what = format!("update_task({prop}, {val:?})");
            let r = replica.update_task(uuid, prop, val.clone()).await;
            let after = simstorage::read_store(&w.borrow().stores[n]);
            match (before.tasks.get(&uuid), r) {
                (None, Ok(_)) => errs.push("update_task of a task that does not exist succeeded".into()),
                (None, Err(_)) => {
                    if *after != *before {
                        errs.push("a refused update_task changed the replica".into());
                    }
                }
                (Some(old), Ok(tm)) => {
                    let mut exp = old.clone();
                    match &val {
                        Some(v) => {
                            exp.insert(prop.to_string(), v.clone());
                        }
                        None => {
                            exp.remove(prop);
                        }
                    }
                    let got: Props = tm.into_iter().collect();
                    if got != exp || after.tasks.get(&uuid) != Some(&exp) {
                        errs.push(format!("update_task: returned {:?}, stored {:?}, expected {:?}", got, after.tasks.get(&uuid), exp));
                    }
                }
                (Some(_), Err(e)) => {
                    if fired_total() == f0 {
                        errs.push(format!("update_task failed: {e}"));
                    }
                }
            }
        }
        2 => {
            what = "delete_task".into();
            let r = replica.delete_task(uuid).await;
            let after = simstorage::read_store(&w.borrow().stores[n]);
            match (before.tasks.contains_key(&uuid), r) {
                (false, Ok(())) => errs.push("delete_task of a task that does not exist succeeded".into()),
                (false, Err(_)) => {
                    if *after != *before {
                        errs.push("a refused delete_task changed the replica".into());
                    }
                }
                (true, Ok(())) => {
                    let mut exp = before.tasks.clone();
                    exp.remove(&uuid);
                    if after.tasks != exp {
                        errs.push("delete_task did not remove exactly that task".into());
                    }
                }
                (true, Err(e)) => {
                    if fired_total() == f0 {
                        errs.push(format!("delete_task failed: {e}"));
                    }
                }
            }
        }
        3 => {
            what = "import_task_with_uuid".into();
            let r = replica.import_task_with_uuid(uuid).await;
            let after = simstorage::read_store(&w.borrow().stores[n]);
            if r.is_ok() {
                let mut exp = before.tasks.clone();
                exp.entry(uuid).or_default();
                if after.tasks != exp {
                    errs.push(format!("import_task_with_uuid: tasks {:?}, expected {:?}", after.tasks, exp));
                }
            } else if fired_total() == f0 {
                errs.push("import_task_with_uuid failed".into());
            }
        }
        _ => {
            what = format!("add_undo_point({})", arg % 2 == 0);
            let r = replica.add_undo_point(arg % 2 == 0).await;
            let after = simstorage::read_store(&w.borrow().stores[n]);
            if r.is_ok() {
                if after.tasks != before.tasks {
                    errs.push("add_undo_point changed tasks".into());
                }
                let added = after.unsynced.len().saturating_sub(before.unsynced.len());
                if added > 1 || after.unsynced[before.unsynced.len().min(after.unsynced.len())..].iter().any(|o| !o.is_undo_point()) {
                    errs.push("add_undo_point recorded something other than one undo point".into());
                }
                if arg % 2 == 0 && added != 1 {
                    errs.push("add_undo_point(force = true) did not add an undo point".into());
                }
            }
        }
    }
    interpose::set_now_ns(w.borrow().now_ns);
    let mut wb = w.borrow_mut();
    for e in errs {
        wb.violation("task.legacy", "api", format!("node {n} action {a} {what}: {e}"));
    }
    wb.probe("edit.legacy_calls");
    wb.log(|| format!("n{n} a{a} legacy {what}"));
}
