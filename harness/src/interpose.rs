//! Process-wide seams owned from outside the code under test: the wall clock and the OS random
//! source. The harness binary defines `clock_gettime` and `getrandom`; std, chrono, uuid and
//! getrandom-the-crate all bind to these symbols because everything is linked statically into
//! this executable.
//!
//! - `CLOCK_REALTIME` returns the simulated instant while a run is active.
//! - `getrandom` is served from a per-run PRNG stream, which makes `HashMap` iteration order
//!   (`RandomState` keys are drawn on first use per thread; each run executes on a fresh thread)
//!   and `Uuid::new_v4()` a function of the run seed.
//! - write-class syscalls can be counted and the process SIGKILLed at the k-th one (used by the
//!   crash sweeps in victim processes).

use crate::rng::Rng;
use std::sync::atomic::{AtomicBool, AtomicI64, AtomicU64, Ordering};
use std::sync::Mutex;

static SIM_ACTIVE: AtomicBool = AtomicBool::new(false);
/// simulated CLOCK_REALTIME, nanoseconds since the epoch
static SIM_NOW_NS: AtomicI64 = AtomicI64::new(0);
static RAND: Mutex<Option<Rng>> = Mutex::new(None);
pub static GETRANDOM_CALLS: AtomicU64 = AtomicU64::new(0);

/// 2026-01-01T00:00:00Z
pub const EPOCH0: i64 = 1_767_225_600;

pub fn activate(seed: u64, now_secs: i64) {
    *RAND.lock().unwrap() = Some(Rng::new(seed));
    SIM_NOW_NS.store(now_secs * 1_000_000_000, Ordering::SeqCst);
    SIM_ACTIVE.store(true, Ordering::SeqCst);
}

pub fn deactivate() {
    SIM_ACTIVE.store(false, Ordering::SeqCst);
    *RAND.lock().unwrap() = None;
}

pub fn set_now_ns(ns: i64) {
    SIM_NOW_NS.store(ns, Ordering::SeqCst);
}
pub fn now_ns() -> i64 {
    SIM_NOW_NS.load(Ordering::SeqCst)
}

#[no_mangle]
pub unsafe extern "C" fn clock_gettime(clk: libc::clockid_t, ts: *mut libc::timespec) -> libc::c_int {
    if clk == libc::CLOCK_REALTIME && SIM_ACTIVE.load(Ordering::Relaxed) {
        let ns = SIM_NOW_NS.load(Ordering::SeqCst);
        (*ts).tv_sec = ns.div_euclid(1_000_000_000) as libc::time_t;
        (*ts).tv_nsec = ns.rem_euclid(1_000_000_000) as libc::c_long;
        return 0;
    }
    libc::syscall(libc::SYS_clock_gettime, clk as libc::c_long, ts) as libc::c_int
}

#[no_mangle]
pub unsafe extern "C" fn getrandom(buf: *mut libc::c_void, len: libc::size_t, flags: libc::c_uint) -> libc::ssize_t {
    if SIM_ACTIVE.load(Ordering::Relaxed) {
        if let Ok(mut g) = RAND.lock() {
            if let Some(r) = g.as_mut() {
                let s = std::slice::from_raw_parts_mut(buf as *mut u8, len);
                r.fill(s);
                GETRANDOM_CALLS.fetch_add(1, Ordering::Relaxed);
                return len as libc::ssize_t;
            }
        }
    }
    libc::syscall(libc::SYS_getrandom, buf, len, flags) as libc::ssize_t
}

// ---- write-class syscall counting (crash sweeps) -------------------------------------------

/// When >0: the process kills itself (SIGKILL) immediately *before* performing the write-class
/// syscall whose 1-based ordinal equals this value.
pub static KILL_AT_WRITE: AtomicI64 = AtomicI64::new(0);
pub static WRITE_COUNT: AtomicI64 = AtomicI64::new(0);
pub static COUNT_WRITES: AtomicBool = AtomicBool::new(false);

fn write_hook() {
    if !COUNT_WRITES.load(Ordering::Relaxed) {
        return;
    }
    let n = WRITE_COUNT.fetch_add(1, Ordering::SeqCst) + 1;
    let k = KILL_AT_WRITE.load(Ordering::SeqCst);
    if k > 0 && n == k {
        unsafe {
            libc::kill(libc::getpid(), libc::SIGKILL);
            loop {
                libc::pause();
            }
        }
    }
}

#[no_mangle]
pub unsafe extern "C" fn pwrite64(fd: libc::c_int, buf: *const libc::c_void, n: libc::size_t, off: libc::off64_t) -> libc::ssize_t {
    write_hook();
    libc::syscall(libc::SYS_pwrite64, fd, buf, n, off) as libc::ssize_t
}

#[no_mangle]
pub unsafe extern "C" fn pwrite(fd: libc::c_int, buf: *const libc::c_void, n: libc::size_t, off: libc::off_t) -> libc::ssize_t {
    write_hook();
    libc::syscall(libc::SYS_pwrite64, fd, buf, n, off) as libc::ssize_t
}

// ---- busy-wait detection (C17) ------------------------------------------------------------------
// SQLite's busy handler sleeps through nanosleep(2) between lock retries. While the executor
// listens, a sleeping thread marks "some actor thread is waiting for a database lock" and wakes
// the executor, which thereby learns deterministically that the request it just issued blocks
// (the alternative outcome is the request's reply).
static BUSY_LISTEN: AtomicBool = AtomicBool::new(false);
static BUSY_SEEN: AtomicBool = AtomicBool::new(false);
static BUSY_WAKE: Mutex<Option<std::thread::Thread>> = Mutex::new(None);

pub fn busy_listen(on: bool) {
    if on {
        if let Ok(mut g) = BUSY_WAKE.lock() {
            *g = Some(std::thread::current());
        }
        BUSY_SEEN.store(false, Ordering::SeqCst);
    }
    BUSY_LISTEN.store(on, Ordering::SeqCst);
}

pub fn busy_seen() -> bool {
    BUSY_SEEN.load(Ordering::SeqCst)
}

#[no_mangle]
pub unsafe extern "C" fn nanosleep(req: *const libc::timespec, rem: *mut libc::timespec) -> libc::c_int {
    if BUSY_LISTEN.load(Ordering::SeqCst) {
        BUSY_SEEN.store(true, Ordering::SeqCst);
        if let Ok(g) = BUSY_WAKE.try_lock() {
            if let Some(t) = g.as_ref() {
                t.unpark();
            }
        }
    }
    libc::syscall(libc::SYS_nanosleep, req, rem) as libc::c_int
}

#[no_mangle]
pub unsafe extern "C" fn fsync(fd: libc::c_int) -> libc::c_int {
    write_hook();
    libc::syscall(libc::SYS_fsync, fd) as libc::c_int
}

#[no_mangle]
pub unsafe extern "C" fn fdatasync(fd: libc::c_int) -> libc::c_int {
    write_hook();
    libc::syscall(libc::SYS_fdatasync, fd) as libc::c_int
}

#[no_mangle]
pub unsafe extern "C" fn ftruncate64(fd: libc::c_int, len: libc::off64_t) -> libc::c_int {
    write_hook();
    libc::syscall(libc::SYS_ftruncate, fd, len) as libc::c_int
}

#[no_mangle]
pub unsafe extern "C" fn ftruncate(fd: libc::c_int, len: libc::off_t) -> libc::c_int {
    write_hook();
    libc::syscall(libc::SYS_ftruncate, fd, len) as libc::c_int
}

#[no_mangle]
pub unsafe extern "C" fn unlink(path: *const libc::c_char) -> libc::c_int {
    write_hook();
    libc::syscall(libc::SYS_unlink, path) as libc::c_int
}
