//! `SimStorage`: the storage seam. Wraps the real `InMemoryStorage` or the real `SqliteStorage`
//! and turns every `StorageTxn` call into a fault point (and, when `sched` is set, a scheduling
//! point). The wrapped storage does all the work.
//!
//! In-memory stores are owned by the harness (`MemStore`) so that they survive a dropped node
//! (process stop) and can be cloned for dry runs: a transaction works on a private clone of the
//! real `InMemoryStorage` and, when the real transaction's `commit` returns `Ok`, the clone
//! replaces the shared copy. Everything else – including the transaction's own copy-on-write,
//! its rollback on drop and every query – is the real code.

use crate::exec::{fault_point_async, yield_point, Decision};
use async_trait::async_trait;
use std::sync::{Arc, Mutex};
use taskchampion::storage::inmemory::InMemoryStorage;
use taskchampion::storage::{Storage, StorageTxn, TaskMap};
use taskchampion::{Error, Operation, SqliteStorage};
use uuid::Uuid;

type Result<T> = std::result::Result<T, Error>;
/// A harness-owned in-memory store: the real `InMemoryStorage`, kept outside the `Replica` so
/// that it survives a dropped node (process stop) and can be copied for dry runs. At most one
/// transaction borrows it at a time (`busy`); inspections read `cache`, which is refreshed from
/// the store after every successful commit, so they never touch the store under a live
/// transaction.
pub struct MemInner {
    data: std::cell::UnsafeCell<InMemoryStorage>,
    busy: std::sync::atomic::AtomicBool,
    cache: Mutex<Arc<StoreState>>,
}
// Access to `data` is serialised by `busy` (and the simulator is single-threaded per run).
unsafe impl Sync for MemInner {}
unsafe impl Send for MemInner {}
pub type MemStore = Arc<MemInner>;

pub fn new_mem() -> MemStore {
    mem_from(InMemoryStorage::new())
}
pub fn mem_from(mut s: InMemoryStorage) -> MemStore {
    let st = crate::exec::block_on(async { read_state(&mut s).await }).expect("in-memory read");
    Arc::new(MemInner { data: std::cell::UnsafeCell::new(s), busy: std::sync::atomic::AtomicBool::new(false), cache: Mutex::new(Arc::new(st)) })
}
/// A deep copy of the store (for dry runs / re-execution from the same durable state).
pub fn clone_mem(m: &MemStore) -> MemStore {
    assert!(!m.busy.load(std::sync::atomic::Ordering::SeqCst), "clone_mem under a live transaction");
    // SAFETY: not busy, so no transaction borrows the store.
    mem_from(unsafe { (*m.data.get()).clone() })
}

/// Injected storage failures look like real ones: rusqlite / I/O errors reach callers as
/// `Error::Other`.
pub fn sim_err(what: &str) -> Error {
    Error::Other(anyhow::anyhow!("sim: injected fault at {what}"))
}

pub fn is_sim_err(e: &Error) -> bool {
    format!("{e:#}").contains("sim: injected fault")
}

pub enum Backend {
    Mem(MemStore),
    Sqlite(SqliteStorage),
}

pub struct SimStorage {
    backend: Backend,
    /// storage calls are scheduling points (shared SQLite directory) rather than only fault points
    sched: bool,
}

impl SimStorage {
    pub fn mem(store: MemStore) -> SimStorage {
        SimStorage { backend: Backend::Mem(store), sched: false }
    }
    pub fn sqlite(s: SqliteStorage, sched: bool) -> SimStorage {
        SimStorage { backend: Backend::Sqlite(s), sched }
    }
}

struct SimTxn<'a> {
    inner: Option<Box<dyn StorageTxn + Send + 'a>>,
    /// for in-memory stores: the store `inner` borrows from (its `busy` flag is held)
    shared: Option<MemStore>,
    sched: bool,
}

impl Drop for SimTxn<'_> {
    fn drop(&mut self) {
        // the real transaction goes first (an uncommitted one rolls back by being dropped) …
        self.inner = None;
        // … then the store is released
        if let Some(sh) = self.shared.take() {
            sh.busy.store(false, std::sync::atomic::Ordering::SeqCst);
        }
    }
}

#[async_trait]
impl Storage for SimStorage {
    async fn txn<'a>(&'a mut self) -> Result<Box<dyn StorageTxn + Send + 'a>> {
        let d = if self.sched { yield_point("st.txn").await } else { fault_point_async("st.txn").await };
        if d == Decision::FailBefore || d == Decision::FailAfter {
            return Err(sim_err("st.txn"));
        }
        let sched = self.sched;
        match &mut self.backend {
            Backend::Mem(store) => {
                if store.busy.swap(true, std::sync::atomic::Ordering::SeqCst) {
                    panic!("sim: two transactions on one in-memory store");
                }
                // SAFETY: `busy` was clear, so nothing else borrows the store; the flag stays
                // set until the SimTxn (and with it the borrow) is dropped.
                let st: &'a mut InMemoryStorage = unsafe { &mut *store.data.get() };
                match st.txn().await {
                    Ok(inner) => Ok(Box::new(SimTxn { inner: Some(inner), shared: Some(store.clone()), sched })),
                    Err(e) => {
                        store.busy.store(false, std::sync::atomic::Ordering::SeqCst);
                        Err(e)
                    }
                }
            }
            Backend::Sqlite(s) => {
                let inner = s.txn().await?;
                Ok(Box::new(SimTxn { inner: Some(inner), shared: None, sched }))
            }
        }
    }
}

async fn point(sched: bool, label: &'static str) -> Decision {
    if sched {
        yield_point(label).await
    } else {
        fault_point_async(label).await
    }
}

impl<'a> SimTxn<'a> {
    fn inner(&mut self) -> Result<&mut Box<dyn StorageTxn + Send + 'a>> {
        self.inner.as_mut().ok_or_else(|| Error::Database("sim: transaction already finished".into()))
    }
}

macro_rules! fwd {
    ($self:ident, $label:literal, $call:ident ( $($arg:expr),* )) => {{
        let d = point($self.sched, $label).await;
        if d == Decision::FailBefore {
            return Err(sim_err($label));
        }
        let r = $self.inner()?.$call($($arg),*).await;
        if d == Decision::FailAfter {
            return Err(sim_err($label));
        }
        r
    }};
}

#[async_trait]
impl StorageTxn for SimTxn<'_> {
    async fn get_task(&mut self, uuid: Uuid) -> Result<Option<TaskMap>> {
        fwd!(self, "st.get_task", get_task(uuid))
    }
    async fn get_pending_tasks(&mut self) -> Result<Vec<(Uuid, TaskMap)>> {
        fwd!(self, "st.get_pending_tasks", get_pending_tasks())
    }
    async fn create_task(&mut self, uuid: Uuid) -> Result<bool> {
        fwd!(self, "st.create_task", create_task(uuid))
    }
    async fn set_task(&mut self, uuid: Uuid, task: TaskMap) -> Result<()> {
        fwd!(self, "st.set_task", set_task(uuid, task))
    }
    async fn delete_task(&mut self, uuid: Uuid) -> Result<bool> {
        fwd!(self, "st.delete_task", delete_task(uuid))
    }
    async fn all_tasks(&mut self) -> Result<Vec<(Uuid, TaskMap)>> {
        fwd!(self, "st.all_tasks", all_tasks())
    }
    async fn all_task_uuids(&mut self) -> Result<Vec<Uuid>> {
        fwd!(self, "st.all_task_uuids", all_task_uuids())
    }
    async fn base_version(&mut self) -> Result<Uuid> {
        fwd!(self, "st.base_version", base_version())
    }
    async fn set_base_version(&mut self, version: Uuid) -> Result<()> {
        fwd!(self, "st.set_base_version", set_base_version(version))
    }
    async fn get_task_operations(&mut self, uuid: Uuid) -> Result<Vec<Operation>> {
        fwd!(self, "st.get_task_operations", get_task_operations(uuid))
    }
    async fn unsynced_operations(&mut self) -> Result<Vec<Operation>> {
        fwd!(self, "st.unsynced_operations", unsynced_operations())
    }
    async fn num_unsynced_operations(&mut self) -> Result<usize> {
        fwd!(self, "st.num_unsynced_operations", num_unsynced_operations())
    }
    async fn add_operation(&mut self, op: Operation) -> Result<()> {
        fwd!(self, "st.add_operation", add_operation(op))
    }
    async fn remove_operation(&mut self, op: Operation) -> Result<()> {
        fwd!(self, "st.remove_operation", remove_operation(op))
    }
    async fn sync_complete(&mut self) -> Result<()> {
        fwd!(self, "st.sync_complete", sync_complete())
    }
    async fn get_working_set(&mut self) -> Result<Vec<Option<Uuid>>> {
        fwd!(self, "st.get_working_set", get_working_set())
    }
    async fn add_to_working_set(&mut self, uuid: Uuid) -> Result<usize> {
        fwd!(self, "st.add_to_working_set", add_to_working_set(uuid))
    }
    async fn set_working_set_item(&mut self, index: usize, uuid: Option<Uuid>) -> Result<()> {
        fwd!(self, "st.set_working_set_item", set_working_set_item(index, uuid))
    }
    async fn clear_working_set(&mut self) -> Result<()> {
        fwd!(self, "st.clear_working_set", clear_working_set())
    }
    async fn is_empty(&mut self) -> Result<bool> {
        fwd!(self, "st.is_empty", is_empty())
    }
    async fn commit(&mut self) -> Result<()> {
        let d = point(self.sched, "st.commit").await;
        if d == Decision::FailBefore {
            return Err(sim_err("st.commit"));
        }
        let r = self.inner()?.commit().await;
        if r.is_ok() {
            crate::exec::commit_returned();
            if let Some(sh) = self.shared.clone() {
                // the real transaction has published its data; refresh the inspection cache
                self.inner = None;
                // SAFETY: the transaction borrowing the store was just dropped and `busy` is
                // still held by this SimTxn.
                let st: &mut InMemoryStorage = unsafe { &mut *sh.data.get() };
                let state = read_state_plain(st).await?;
                *sh.cache.lock().unwrap() = Arc::new(state);
            }
        }
        if d == Decision::FailAfter {
            return Err(sim_err("st.commit"));
        }
        r
    }
}

// ---- inspection -------------------------------------------------------------------------------

/// Everything observable about a replica store, in canonical form.
#[derive(Clone, Debug, PartialEq, Eq, Default)]
pub struct StoreState {
    pub tasks: crate::model::TaskSet,
    pub base_version: Uuid,
    pub unsynced: Vec<Operation>,
    pub working_set: Vec<Option<Uuid>>,
    /// set when the store could not be opened / read at all
    pub unreadable: Option<String>,
}

pub async fn read_state(st: &mut dyn Storage) -> Result<StoreState> {
    let mut txn = st.txn().await?;
    let tasks = crate::model::canon_tasks(txn.all_tasks().await?);
    let base_version = txn.base_version().await?;
    let unsynced = txn.unsynced_operations().await?;
    let working_set = txn.get_working_set().await?;
    Ok(StoreState { tasks, base_version, unsynced, working_set, unreadable: None })
}

/// like `read_state`, for use inside the seams (InMemoryStorage never suspends)
async fn read_state_plain(st: &mut InMemoryStorage) -> Result<StoreState> {
    read_state(st).await
}

/// Committed state of a harness-owned in-memory store (as of its last successful commit).
pub fn read_mem(store: &MemStore) -> Arc<StoreState> {
    if store.busy.load(std::sync::atomic::Ordering::SeqCst) {
        // a transaction of a parked node borrows the store: what it has not committed is not
        // durable, the last committed state is
        return store.cache.lock().unwrap().clone();
    }
    // read the real store (not the cache): anything that reached it outside a commit must be seen
    // SAFETY: not busy, so no transaction borrows the store.
    let st: &mut InMemoryStorage = unsafe { &mut *store.data.get() };
    let state = crate::exec::block_on(async { read_state(st).await }).expect("in-memory read");
    let mut c = store.cache.lock().unwrap();
    if **c != state {
        *c = Arc::new(state);
    }
    c.clone()
}

// ---- a store that is either harness-owned memory or a SQLite directory -------------------------

#[derive(Clone)]
pub enum StoreRef {
    Mem(MemStore),
    /// a directory holding taskchampion.sqlite3; only what is on disk is the store
    Sqlite(std::path::PathBuf),
}

pub async fn open_sim(s: &StoreRef, sched: bool) -> Result<SimStorage> {
    match s {
        StoreRef::Mem(m) => Ok(SimStorage::mem(m.clone())),
        StoreRef::Sqlite(dir) => {
            let st = SqliteStorage::new(dir, taskchampion::storage::AccessMode::ReadWrite, true).await?;
            Ok(SimStorage::sqlite(st, sched))
        }
    }
}

/// Committed (durable) state: for SQLite read through a fresh handle, as a restarted process would.
pub fn read_store(s: &StoreRef) -> Arc<StoreState> {
    match s {
        StoreRef::Mem(m) => read_mem(m),
        StoreRef::Sqlite(dir) => {
            let r = crate::exec::block_on(async {
                let mut st = SqliteStorage::new(dir, taskchampion::storage::AccessMode::ReadWrite, true).await?;
                read_state(&mut st).await
            });
            match r {
                Ok(st) => Arc::new(st),
                Err(e) => Arc::new(StoreState { unreadable: Some(format!("{e:#}")), ..Default::default() }),
            }
        }
    }
}

pub fn copy_dir(from: &std::path::Path, to: &std::path::Path) {
    let _ = std::fs::create_dir_all(to);
    if let Ok(rd) = std::fs::read_dir(from) {
        for e in rd.flatten() {
            if e.path().is_file() {
                let _ = std::fs::copy(e.path(), to.join(e.file_name()));
            }
        }
    }
}

pub fn clone_store(s: &StoreRef, new_dir: impl FnOnce() -> std::path::PathBuf) -> StoreRef {
    match s {
        StoreRef::Mem(m) => StoreRef::Mem(clone_mem(m)),
        StoreRef::Sqlite(dir) => {
            let d = new_dir();
            copy_dir(dir, &d);
            StoreRef::Sqlite(d)
        }
    }
}
