//! Reference models written from the documentation (docs/src/*.md), never by calling
//! TaskChampion code: the task set, the documented operation semantics (M-apply), a strict
//! decoder for the documented version format, and the single-copy version chain (M-chain).

use serde_json::Value;
use std::collections::BTreeMap;
use uuid::Uuid;

pub type Props = BTreeMap<String, String>;
pub type TaskSet = BTreeMap<Uuid, Props>;

#[derive(Clone, Debug, PartialEq, Eq, PartialOrd, Ord, serde::Serialize, serde::Deserialize)]
pub enum SOp {
    Create { uuid: Uuid },
    Delete { uuid: Uuid },
    Update { uuid: Uuid, property: String, value: Option<String>, ts: String },
}

impl SOp {
    pub fn uuid(&self) -> Uuid {
        match self {
            SOp::Create { uuid } | SOp::Delete { uuid } | SOp::Update { uuid, .. } => *uuid,
        }
    }
}

/// M-apply: docs/src/storage.md "Operations" and sync-model.md.
pub fn apply(ts: &mut TaskSet, op: &SOp) {
    match op {
        SOp::Create { uuid } => {
            ts.entry(*uuid).or_default();
        }
        SOp::Delete { uuid } => {
            ts.remove(uuid);
        }
        SOp::Update { uuid, property, value, .. } => {
            if let Some(t) = ts.get_mut(uuid) {
                match value {
                    Some(v) => {
                        t.insert(property.clone(), v.clone());
                    }
                    None => {
                        t.remove(property);
                    }
                }
            }
        }
    }
}

/// Parse an RFC 3339 timestamp with `Z` or `+00:00` offset into (seconds, nanos). Independent of chrono's
/// serde implementation (uses only integer arithmetic).
pub fn parse_rfc3339_utc(s: &str) -> Result<(i64, u32), String> {
    let b = s.as_bytes();
    let bad = || format!("not an RFC 3339 UTC timestamp: {s:?}");
    if b.len() < 20 {
        return Err(bad());
    }
    let num = |r: std::ops::Range<usize>| -> Result<i64, String> {
        let t = s.get(r).ok_or_else(bad)?;
        if t.is_empty() || !t.bytes().all(|c| c.is_ascii_digit()) {
            return Err(bad());
        }
        t.parse::<i64>().map_err(|_| bad())
    };
    let y = num(0..4)?;
    if b[4] != b'-' || b[7] != b'-' || (b[10] != b'T' && b[10] != b't') || b[13] != b':' || b[16] != b':' {
        return Err(bad());
    }
    let (mo, d, h, mi, sec) = (num(5..7)?, num(8..10)?, num(11..13)?, num(14..16)?, num(17..19)?);
    let mut i = 19;
    let mut nanos: u32 = 0;
    if b[i] == b'.' {
        i += 1;
        let st = i;
        while i < b.len() && b[i].is_ascii_digit() {
            i += 1;
        }
        if i == st {
            return Err(bad());
        }
        let frac = &s[st..i];
        let mut digits: String = frac.chars().take(9).collect();
        while digits.len() < 9 {
            digits.push('0');
        }
        nanos = digits.parse().map_err(|_| bad())?;
    }
    let tz = &s[i..];
    if !(tz == "Z" || tz == "z" || tz == "+00:00" || tz == "-00:00") {
        return Err(format!("timestamp is not UTC: {s:?}"));
    }
    if !(1..=12).contains(&mo) || !(1..=31).contains(&d) || h > 23 || mi > 59 || sec > 60 {
        return Err(bad());
    }
    // days from civil (Howard Hinnant)
    let yy = if mo <= 2 { y - 1 } else { y };
    let era = if yy >= 0 { yy } else { yy - 399 } / 400;
    let yoe = yy - era * 400;
    let mp = (mo + 9) % 12;
    let doy = (153 * mp + 2) / 5 + d - 1;
    let doe = yoe * 365 + yoe / 4 - yoe / 100 + doy;
    let days = era * 146097 + doe - 719468;
    Ok((days * 86400 + h * 3600 + mi * 60 + sec, nanos))
}

fn exact_keys(o: &serde_json::Map<String, Value>, allowed: &[&str], what: &str) -> Result<(), String> {
    for k in o.keys() {
        if !allowed.contains(&k.as_str()) {
            return Err(format!("{what} carries undocumented field {k:?}"));
        }
    }
    for k in allowed {
        if !o.contains_key(*k) {
            return Err(format!("{what} lacks documented field {k:?}"));
        }
    }
    Ok(())
}

fn get_uuid(o: &serde_json::Map<String, Value>, what: &str) -> Result<Uuid, String> {
    let s = o.get("uuid").and_then(|v| v.as_str()).ok_or_else(|| format!("{what}: uuid is not a string"))?;
    Uuid::parse_str(s).map_err(|e| format!("{what}: bad uuid {s:?}: {e}"))
}

/// Strict walker for the documented version format: a UTF-8 JSON document
/// `{"operations":[ op… ]}`, each op exactly one of `{"Create":{"uuid":…}}`,
/// `{"Delete":{"uuid":…}}`, `{"Update":{"uuid":…,"property":…,"value":…|null,"timestamp":…}}`.
/// `strict_fields`: reject any further key (send-side check). Uses only `serde_json::Value`.
pub fn decode_version(bytes: &[u8], strict_fields: bool) -> Result<Vec<SOp>, String> {
    let text = std::str::from_utf8(bytes).map_err(|e| format!("version is not UTF-8: {e}"))?;
    let v: Value = serde_json::from_str(text).map_err(|e| format!("version is not JSON: {e}"))?;
    let top = v.as_object().ok_or("version is not a JSON object")?;
    if strict_fields {
        exact_keys(top, &["operations"], "version document")?;
    }
    let ops = top
        .get("operations")
        .and_then(|o| o.as_array())
        .ok_or("version has no \"operations\" array")?;
    let mut out = Vec::with_capacity(ops.len());
    for (i, op) in ops.iter().enumerate() {
        let what = format!("operation #{i}");
        let o = op.as_object().ok_or_else(|| format!("{what} is not an object"))?;
        if o.len() != 1 {
            return Err(format!("{what} must have exactly one variant key, has {}", o.len()));
        }
        let (tag, body) = o.iter().next().unwrap();
        let body = body.as_object().ok_or_else(|| format!("{what} body is not an object"))?;
        match tag.as_str() {
            "Create" => {
                if strict_fields {
                    exact_keys(body, &["uuid"], &what)?;
                }
                out.push(SOp::Create { uuid: get_uuid(body, &what)? });
            }
            "Delete" => {
                if strict_fields {
                    exact_keys(body, &["uuid"], &what)?;
                }
                out.push(SOp::Delete { uuid: get_uuid(body, &what)? });
            }
            "Update" => {
                if strict_fields {
                    exact_keys(body, &["uuid", "property", "value", "timestamp"], &what)?;
                }
                let uuid = get_uuid(body, &what)?;
                let property = body
                    .get("property")
                    .and_then(|p| p.as_str())
                    .ok_or_else(|| format!("{what}: property is not a string"))?
                    .to_string();
                let value = match body.get("value") {
                    Some(Value::Null) | None => None,
                    Some(Value::String(s)) => Some(s.clone()),
                    Some(other) => return Err(format!("{what}: value is neither string nor null: {other}")),
                };
                let ts = body
                    .get("timestamp")
                    .and_then(|p| p.as_str())
                    .ok_or_else(|| format!("{what}: timestamp is not a string"))?
                    .to_string();
                parse_rfc3339_utc(&ts).map_err(|e| format!("{what}: {e}"))?;
                out.push(SOp::Update { uuid, property, value, ts });
            }
            other => return Err(format!("{what}: undocumented operation kind {other:?}")),
        }
    }
    Ok(out)
}

/// Decode a snapshot independently: zlib-deflated JSON object uuid -> {prop: value}.
pub fn decode_snapshot(bytes: &[u8]) -> Result<TaskSet, String> {
    use std::io::Read;
    let mut d = flate2::read::ZlibDecoder::new(bytes);
    let mut s = Vec::new();
    d.read_to_end(&mut s).map_err(|e| format!("snapshot does not inflate: {e}"))?;
    let v: Value = serde_json::from_slice(&s).map_err(|e| format!("snapshot is not JSON: {e}"))?;
    let o = v.as_object().ok_or("snapshot is not a JSON object")?;
    let mut ts = TaskSet::new();
    for (k, t) in o {
        let u = Uuid::parse_str(k).map_err(|e| format!("snapshot key {k:?}: {e}"))?;
        let tm = t.as_object().ok_or("snapshot task is not an object")?;
        let mut p = Props::new();
        for (pk, pv) in tm {
            p.insert(pk.clone(), pv.as_str().ok_or("snapshot value is not a string")?.to_string());
        }
        if ts.insert(u, p).is_some() {
            return Err(format!("snapshot lists task {u} twice"));
        }
    }
    Ok(ts)
}

/// One stored version of M-chain.
#[derive(Clone, Debug)]
pub struct VersionRec {
    pub id: Uuid,
    pub parent: Uuid,
    pub bytes: Vec<u8>,
    /// which node added it (usize::MAX for foreign clients)
    pub origin: usize,
    /// decoded operations (None when the bytes are not a version document, e.g. raw protocol tests)
    pub ops: Option<Vec<SOp>>,
}

/// M-chain: the server as a single-copy log (docs/src/sync-protocol.md).
#[derive(Clone, Debug, Default)]
pub struct Chain {
    pub versions: Vec<VersionRec>,
    pub latest: Uuid,
    pub snapshot: Option<(Uuid, Vec<u8>)>,
    /// versions with index < this have been discarded by the server (only legal after a snapshot)
    pub discarded_before: usize,
    /// memo: states[i] = task set after versions[0..=i] (filled lazily, in order)
    pub states: std::cell::RefCell<Vec<std::rc::Rc<TaskSet>>>,
}

#[derive(Debug, PartialEq, Eq, Clone)]
pub enum AddResult {
    Ok(Uuid),
    Expected(Uuid),
}

impl Chain {
    pub fn index_of(&self, id: Uuid) -> Option<usize> {
        self.versions.iter().position(|v| v.id == id)
    }
    pub fn child_of(&self, parent: Uuid) -> Option<&VersionRec> {
        self.versions
            .iter()
            .enumerate()
            .find(|(i, v)| v.parent == parent && *i >= self.discarded_before)
            .map(|(_, v)| v)
    }
    pub fn add(&mut self, parent: Uuid, new_id: Uuid, bytes: Vec<u8>, origin: usize) -> AddResult {
        if self.latest.is_nil() || parent == self.latest {
            let ops = decode_version(&bytes, false).ok();
            self.versions.push(VersionRec { id: new_id, parent, bytes, origin, ops });
            self.latest = new_id;
            AddResult::Ok(new_id)
        } else {
            AddResult::Expected(self.latest)
        }
    }
    /// task set after replaying versions[0..=idx] (idx = None: empty)
    pub fn state_at(&self, upto: Option<usize>) -> Result<TaskSet, String> {
        let Some(n) = upto else { return Ok(TaskSet::new()) };
        let mut memo = self.states.borrow_mut();
        while memo.len() <= n {
            let i = memo.len();
            let mut ts = if i == 0 { TaskSet::new() } else { (*memo[i - 1]).clone() };
            let v = &self.versions[i];
            let ops = v.ops.as_ref().ok_or_else(|| format!("version {} is not decodable", v.id))?;
            for op in ops {
                apply(&mut ts, op);
            }
            memo.push(std::rc::Rc::new(ts));
        }
        Ok((*memo[n]).clone())
    }
    pub fn state_at_version(&self, id: Uuid) -> Result<TaskSet, String> {
        if id.is_nil() {
            return Ok(TaskSet::new());
        }
        let i = self.index_of(id).ok_or_else(|| format!("version {id} is not on the chain"))?;
        self.state_at(Some(i))
    }
    pub fn state_latest(&self) -> Result<TaskSet, String> {
        if self.versions.is_empty() {
            Ok(TaskSet::new())
        } else {
            self.state_at(Some(self.versions.len() - 1))
        }
    }
}

/// Convert a TaskChampion task listing into the model's canonical form.
pub fn canon_tasks<I: IntoIterator<Item = (Uuid, std::collections::HashMap<String, String>)>>(it: I) -> TaskSet {
    it.into_iter().map(|(u, m)| (u, m.into_iter().collect())).collect()
}

pub fn short(u: &Uuid) -> String {
    let s = u.to_string();
    if s.starts_with("7a5c0000-0000-4000-8000-") {
        format!("T{}", s[24..].trim_start_matches('0'))
    } else {
        s[..8].to_string()
    }
}

pub fn fmt_taskset(ts: &TaskSet) -> String {
    let mut s = String::from("{");
    for (u, p) in ts {
        s.push_str(&format!("{}:{{", short(u)));
        for (k, v) in p {
            let v = if v.len() > 24 { format!("{}…({}B)", v.chars().take(16).collect::<String>(), v.len()) } else { v.clone() };
            s.push_str(&format!("{k}={v},"));
        }
        s.push_str("} ");
    }
    s.push('}');
    s
}
