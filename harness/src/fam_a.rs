//! Family A — replica simulation: 1–5 real `Replica`s (real TaskDb, sync, apply, undo, snapshot,
//! working set, InMemoryStorage) against `SimServer` (M-chain), inside the seeded executor.

use crate::exec::{self, begin_action, yield_point, Ctx, Decision, NodeFut, PollOutcome};
use crate::interpose::{self, EPOCH0};
use crate::model::{self, SOp, TaskSet};
use crate::rng::{mix, Fnv, Rng};
use crate::simserver::{ServerWorld, SimServer, SrvEvent};
use crate::simstorage::{self, is_sim_err, SimStorage, StoreRef, StoreState};
use crate::{CheckDef, RunResult, Violation};
use serde::{Deserialize, Serialize};
use serde_json::Value;
use std::cell::RefCell;
use std::collections::{BTreeMap, BTreeSet};
use std::rc::Rc;
use taskchampion::{Operation, Operations, Replica, Server, TaskData};
use uuid::Uuid;

pub const BIG: usize = 400_000;

#[derive(Serialize, Deserialize, Clone, Debug, PartialEq)]
pub enum Intent {
    Create { t: u8 },
    Delete { t: u8 },
    /// set property p of task t to a value unique to this intent; ts = offset in seconds from EPOCH0
    Set { t: u8, p: u8, ts: i64, big: bool },
    Remove { t: u8, p: u8, ts: i64 },
    UndoPoint,
    /// create n further tasks (C12: large snapshots)
    Bulk { n: u16 },
    /// like Set, but the value alone exceeds the one-megabyte batching threshold
    SetHuge { t: u8, p: u8, ts: i64 },
    /// an operation on a task that exists nowhere (as a stale TaskData handle can produce): it is
    /// invalid, must be ignored by everybody and must not disturb anything else
    Ghost { del: bool, ts: i64 },
    /// an import that lists a task twice: the task (one of two that nothing ever deletes, so the
    /// redundant Create stays redundant on every replica) is created if need be, updated, and then
    /// "created" again; the second Create must be ignored by everybody and disturb nothing
    Recreate { t: u8, p: u8, ts: i64 },
    /// set (or remove) an arbitrary key to an explicit value through the TaskData API
    /// (status, modified, dep_…, tag_… for C15/C19/C20); not tracked by the conservation oracle
    Key { t: u8, key: String, val: Option<String>, ts: i64 },
}

#[derive(Serialize, Deserialize, Clone, Debug, PartialEq)]
pub enum Action {
    Commit { ops: Vec<Intent> },
    Sync { avoid: bool },
    /// fetch the undo operations and commit their reversal
    Undo,
    /// fetch the undo operations, commit `then`, and only then try to commit the reversal
    StaleUndo { then: Vec<Intent> },
    /// commit operations exactly as given, valid or not (C05)
    CommitRaw { ops: Vec<RawOp> },
    /// another implementation of the documented protocol appends a version (C14): intents are
    /// resolved against the chain's state and written in the documented format, with field
    /// order, whitespace, escapes and timestamp precision chosen by `fmt`
    Foreign { ops: Vec<Intent>, fmt: u64 },
    /// rebuild the working set (C15)
    Rebuild { renumber: bool },
    /// expire tasks with this replica's clock reading EPOCH0+at seconds (C20)
    Expire { at: i64 },
    /// an editing session on task t through the high-level Task API, clock reading EPOCH0+at (C19)
    Edit { t: u8, at: i64, muts: Vec<crate::taskmodel::Mut> },
    /// a raw protocol call on this node's server handle (C08)
    Srv { call: SrvCall },
    /// one of the older convenience methods of Replica (C19): 0 new_task, 1 update_task,
    /// 2 delete_task, 3 import_task_with_uuid, 4 add_undo_point
    Legacy { kind: u8, t: u8, arg: u8, at: i64 },
}

#[derive(Serialize, Deserialize, Clone, Debug, PartialEq)]
pub enum VRef {
    Nil,
    Latest,
    /// the i-th (mod length) version of the chain
    Chain(u8),
    /// an id nobody has seen
    Unknown(u8),
}

#[derive(Serialize, Deserialize, Clone, Debug, PartialEq)]
pub enum SrvCall {
    /// payload kinds: 0 empty, 1 short text, 2 bytes that are not UTF-8, 3 one megabyte, 4 all byte values
    Add { parent: VRef, payload: u8 },
    GetChild { parent: VRef },
    AddSnapshot { version: VRef, payload: u8 },
    GetSnapshot,
    /// drop the handle and open a new one
    Reopen,
}

#[derive(Serialize, Deserialize, Clone, Debug, PartialEq)]
pub enum RawOp {
    Create { t: u8 },
    Delete { t: u8, old: Vec<(u8, String)> },
    Update { t: u8, p: u8, old: Option<String>, val: Option<String>, ts: i64 },
    UndoPoint,
}

#[derive(Serialize, Deserialize, Clone, Debug)]
pub struct Scenario {
    pub check: String,
    pub seed: u64,
    pub nodes: usize,
    pub scripts: Vec<Vec<Action>>,
    pub sched_seed: u64,
    /// syncs run to completion without interleaving (C01) or interleave per server request (C02)
    pub atomic_sync: bool,
    pub bias: u8,
    pub faults: Vec<(usize, usize, u32, Decision)>,
    pub urgency_mode: u8,
    pub srv_seed: u64,
    /// C03: round-structured history: rounds[r][replica] = the batch that replica commits in round r
    #[serde(default)]
    pub rounds: Vec<Vec<Vec<Intent>>>,
    /// C04/C05: after the scripts, this action of this node is executed once per interruption
    /// point and fault kind, each time from a copy of the state the scripts led to
    #[serde(default)]
    pub under_test: Option<(usize, Action)>,
    /// skip the final synchronisation phase (checks whose oracle is purely local)
    #[serde(default)]
    pub no_final: bool,
    /// 0: ASCII property names and values; 1: arbitrary Unicode (quotes, control characters, …)
    #[serde(default)]
    pub style: u8,
    /// the last `late` nodes are new, empty replicas that only start after the others have
    /// synchronized and the server has discarded the versions before its snapshot
    #[serde(default)]
    pub late: usize,
    /// replicas use the real SqliteStorage (own directory each) instead of InMemoryStorage
    #[serde(default)]
    pub sqlite: bool,
    /// unit of the intents' timestamp offsets in milliseconds (0 = whole seconds)
    #[serde(default)]
    pub ts_unit_ms: u32,
    /// C06: number of storage-call kill points (and twice as many write-syscall kill points) at
    /// which the action is repeated in a victim process that is really SIGKILLed
    #[serde(default)]
    pub kill_budget: u32,
    /// sweeps: interrupt at most this many of the enumerated points (seeded sample); 0 = all
    #[serde(default)]
    pub sweep_max: u32,
    /// 0: reference server; 1 local, 2 object store, 3 git local-only, 4 git with bare remote,
    /// 5 HTTP client: the real backend behind a model-checking proxy (family D)
    #[serde(default)]
    pub backend: u8,
}

pub fn task_uuid(t: u8) -> Uuid {
    Uuid::from_u128(0x7a5c0000_0000_4000_8000_000000000000u128 + t as u128)
}
pub fn prop_name(p: u8) -> String {
    format!("p{p}")
}
const EXOTIC_PROPS: &[&str] = &["p0", "desc ription", "ключ", "\"q\"", "a.b\\c", "😀", "tab\there", "ünï"];
const EXOTIC_VALS: &[&str] = &["\"quoted\"", "back\\slash", "líne\nbreak", "tab\t", "emoji😀", "עברית", "nul\u{0}byte", "\u{feff}bom", "e\u{301}", "sep\u{2028}", "{\"json\":[1]}", ""];
pub fn prop_name_s(p: u8, style: u8) -> String {
    if style == 0 {
        prop_name(p)
    } else {
        EXOTIC_PROPS[p as usize % EXOTIC_PROPS.len()].to_string()
    }
}
fn value_for(n: usize, a: usize, i: usize, big: bool, style: u8) -> String {
    let mut s = format!("v{n}.{a}.{i}");
    if style != 0 {
        s.push('~');
        s.push_str(EXOTIC_VALS[(n * 7 + a * 3 + i) % EXOTIC_VALS.len()]);
    }
    if big {
        let pad = BIG - s.len();
        s.push(':');
        s.push_str(&"x".repeat(pad));
    }
    s
}
pub fn bulk_uuid(j: u32) -> Uuid {
    Uuid::from_u128(0x7a5c0000_0000_4000_8000_000000010000u128 + j as u128)
}

#[derive(Clone, Debug, PartialEq)]
enum LStatus {
    Committed,
    Undone,
    /// the commit was hit by a fault; resolved to Committed/Failed by inspecting the store
    Failed,
}

#[derive(Clone, Debug)]
struct LedgerOp {
    action: usize,
    sop: SOp,
    status: LStatus,
    /// how many versions of the chain the replica had seen when it committed this
    /// (index of its base version + 1; 0 for the nil version)
    base_len: usize,
    /// for undone operations: how many versions the chain had when they were undone (an operation
    /// that reached the server before - e.g. in a sync whose acknowledgement was lost - is not
    /// withdrawn by a later undo)
    undone_when: usize,
}

pub(crate) struct World {
    pub(crate) sc: Scenario,
    pub(crate) stores: Vec<StoreRef>,
    /// root of this run's on-disk stores (removed when the last world of the run is dropped)
    pub(crate) root: Option<Rc<crate::fam_c::DirGuard>>,
    pub(crate) backend: Option<Rc<crate::fam_d::BackendEnv>>,
    dir_counter: Rc<std::cell::Cell<u64>>,
    server: Rc<RefCell<ServerWorld>>,
    pc: Vec<usize>,
    ledger: Vec<Vec<LedgerOp>>,
    violations: Vec<Violation>,
    probes: BTreeMap<String, u64>,
    log: Vec<String>,
    want_log: bool,
    /// global simulated time (ns since epoch), advanced by the executor
    pub(crate) now_ns: i64,
    steps: u64,
    sched_hash: Fnv,
    /// distinguishes values of different rounds / phases (action indices restart there)
    epoch: usize,
    /// tasks purged by some replica's expire_tasks
    pub expired: BTreeSet<Uuid>,
    /// per node: the unsynchronized operations when its current undo action began
    pre_undo: Vec<Option<Vec<Operation>>>,
}

impl World {
    pub(crate) fn violation(&mut self, oracle: &str, sig: impl Into<String>, detail: String) {
        if self.want_log {
            self.log.push(format!("VIOLATION {oracle}: {detail}"));
        }
        self.violations.push(Violation { oracle: oracle.into(), sig: sig.into(), detail });
    }
    pub(crate) fn probe(&mut self, k: &str) {
        *self.probes.entry(k.to_string()).or_insert(0) += 1;
    }
    pub(crate) fn log(&mut self, s: impl FnOnce() -> String) {
        if self.want_log {
            let l = s();
            self.log.push(l);
        }
    }
}

fn op_to_sop(op: &Operation) -> Option<SOp> {
    match op {
        Operation::Create { uuid } => Some(SOp::Create { uuid: *uuid }),
        Operation::Delete { uuid, .. } => Some(SOp::Delete { uuid: *uuid }),
        Operation::Update { uuid, property, value, timestamp, .. } => {
            Some(SOp::Update { uuid: *uuid, property: property.clone(), value: value.clone(), ts: timestamp.to_rfc3339() })
        }
        Operation::UndoPoint => None,
    }
}

pub(crate) fn fired_total() -> u64 {
    exec::with_ctx(|c| c.fired.values().sum::<u64>()).unwrap_or(0)
}

/// Build the operations for a list of intents the way an application would: through the public
/// `TaskData` API, against the replica's current view. Returns None if reading failed (fault).
pub(crate) async fn build_ops(n: usize, a: usize, replica: &mut Replica<SimStorage>, intents: &[Intent], now_ns: i64, style: u8, ts_unit_ms: u32) -> Option<Operations> {
    let ts_ns = |ts: i64| -> i64 { if ts_unit_ms == 0 { (EPOCH0 + ts) * 1_000_000_000 } else { EPOCH0 * 1_000_000_000 + ts * ts_unit_ms as i64 * 1_000_000 } };
    let mut ops = Operations::new();
    let mut view: BTreeMap<u8, Option<TaskData>> = BTreeMap::new();
    for (i, it) in intents.iter().enumerate() {
        let t = match it {
            Intent::UndoPoint => {
                ops.push(Operation::UndoPoint);
                continue;
            }
            Intent::Ghost { del, ts } => {
                use taskchampion::chrono::{TimeZone, Utc};
                let uuid = task_uuid(250);
                if *del {
                    ops.push(Operation::Delete { uuid, old_task: Default::default() });
                } else {
                    ops.push(Operation::Update { uuid, property: "p0".into(), old_value: None, value: Some("ghost".into()), timestamp: Utc.timestamp_opt(EPOCH0 + ts, 0).unwrap() });
                }
                continue;
            }
            Intent::Bulk { n: count } => {
                // many new tasks at once (only tasks that do not exist yet)
                for j in 0..*count as u32 {
                    let u = bulk_uuid(j);
                    match replica.get_task_data(u).await {
                        Ok(None) => {
                            let mut td = TaskData::create(u, &mut ops);
                            td.update("description", Some(format!("bulk{n}.{a}.{j}")), &mut ops);
                        }
                        Ok(Some(_)) => {}
                        Err(_) => return None,
                    }
                }
                continue;
            }
            Intent::Create { t } | Intent::Recreate { t, .. } | Intent::Delete { t } | Intent::Set { t, .. } | Intent::Remove { t, .. } | Intent::Key { t, .. } | Intent::SetHuge { t, .. } => *t,
        };
        if !view.contains_key(&t) {
            match replica.get_task_data(task_uuid(t)).await {
                Ok(td) => {
                    view.insert(t, td);
                }
                Err(_) => return None,
            }
        }
        let slot = view.get_mut(&t).unwrap();
        match it {
            Intent::Create { .. } => {
                if slot.is_none() {
                    *slot = Some(TaskData::create(task_uuid(t), &mut ops));
                }
            }
            Intent::Recreate { p, ts, .. } => {
                if slot.is_none() {
                    *slot = Some(TaskData::create(task_uuid(t), &mut ops));
                }
                interpose::set_now_ns(ts_ns(*ts));
                slot.as_mut().unwrap().update(prop_name_s(*p, style), Some(value_for(n, a, i, false, style)), &mut ops);
                ops.push(Operation::Create { uuid: task_uuid(t) });
            }
            Intent::Delete { .. } => {
                if let Some(mut td) = slot.take() {
                    td.delete(&mut ops);
                }
            }
            Intent::Set { p, ts, big, .. } => {
                if let Some(td) = slot.as_mut() {
                    interpose::set_now_ns(ts_ns(*ts));
                    td.update(prop_name_s(*p, style), Some(value_for(n, a, i, *big, style)), &mut ops);
                }
            }
            Intent::Remove { p, ts, .. } => {
                if let Some(td) = slot.as_mut() {
                    interpose::set_now_ns(ts_ns(*ts));
                    td.update(prop_name_s(*p, style), None, &mut ops);
                }
            }
            Intent::SetHuge { p, ts, .. } => {
                if let Some(td) = slot.as_mut() {
                    interpose::set_now_ns(ts_ns(*ts));
                    let mut v = value_for(n, a, i, false, 0);
                    v.push(':');
                    v.push_str(&"y".repeat(1_050_000));
                    td.update(prop_name_s(*p, style), Some(v), &mut ops);
                }
            }
            Intent::Key { key, val, ts, .. } => {
                if let Some(td) = slot.as_mut() {
                    interpose::set_now_ns(ts_ns(*ts));
                    td.update(key.clone(), val.clone(), &mut ops);
                }
            }
            Intent::UndoPoint | Intent::Bulk { .. } | Intent::Ghost { .. } => unreachable!(),
        }
    }
    interpose::set_now_ns(now_ns);
    Some(ops)
}

async fn do_commit(n: usize, a: usize, w: &Rc<RefCell<World>>, replica: &mut Replica<SimStorage>, intents: &[Intent]) {
    let now = w.borrow().now_ns;
    let f0 = fired_total();
    let epoch = w.borrow().epoch;
    let (style, unit) = (w.borrow().sc.style, w.borrow().sc.ts_unit_ms);
    let Some(ops) = build_ops(n, epoch * 10_000 + a, replica, intents, now, style, unit).await else {
        return;
    };
    commit_ops(n, a, w, replica, ops, f0).await
}

fn raw_to_ops(raw: &[RawOp]) -> Operations {
    use taskchampion::chrono::{TimeZone, Utc};
    raw.iter()
        .map(|r| match r {
            RawOp::Create { t } => Operation::Create { uuid: task_uuid(*t) },
            RawOp::Delete { t, old } => Operation::Delete { uuid: task_uuid(*t), old_task: old.iter().map(|(p, v)| (prop_name(*p), v.clone())).collect() },
            RawOp::Update { t, p, old, val, ts } => Operation::Update {
                uuid: task_uuid(*t),
                property: prop_name(*p),
                old_value: old.clone(),
                value: val.clone(),
                timestamp: Utc.timestamp_opt(EPOCH0 + ts, 0).unwrap(),
            },
            RawOp::UndoPoint => Operation::UndoPoint,
        })
        .collect()
}

pub(crate) async fn commit_ops(n: usize, a: usize, w: &Rc<RefCell<World>>, replica: &mut Replica<SimStorage>, ops: Operations, f0: u64) {
    if ops.is_empty() {
        return;
    }
    let before = simstorage::read_store(&w.borrow().stores[n]);
    let sops: Vec<SOp> = ops.iter().filter_map(op_to_sop).collect();
    let all_ops = ops.clone();
    let check_depmap = w.borrow().sc.check == "C19";
    if check_depmap {
        // have the replica cache its dependency map, so that the commit has something to invalidate
        let _ = replica.dependency_map(false).await;
    }
    let r = replica.commit_operations(ops).await;
    if check_depmap && r.is_ok() && fired_total() == f0 {
        // after a commit through this replica the (unforced) dependency map reflects the stored data
        if let Ok(dm) = replica.dependency_map(false).await {
            let st = simstorage::read_store(&w.borrow().stores[n]);
            let exp = crate::taskmodel::model_depmap(&st.tasks, &st.working_set);
            let mut got = BTreeSet::new();
            for u in st.tasks.keys().chain(before.tasks.keys()) {
                for d in dm.dependencies(*u) {
                    got.insert((*u, d));
                }
            }
            if got != exp {
                w.borrow_mut().violation("task.read", "depmap-after-commit", format!("node {n} action {a}: after committing through the replica its dependency map is {:?}, the stored statuses and dep_ keys give {:?}", got, exp));
            }
        }
    }
    let faulted = fired_total() > f0;
    let after = simstorage::read_store(&w.borrow().stores[n]);
    let mut wb = w.borrow_mut();
    // atomicity: the unsynced list is either untouched or extended by exactly the batch
    let mut applied = false;
    if after.unsynced.len() == before.unsynced.len() + all_ops.len() && after.unsynced[before.unsynced.len()..] == all_ops[..] {
        applied = true;
    } else if *after != *before {
        wb.violation(
            "commit.atomic",
            if faulted { "faulted" } else { "clean" },
            format!("node {n} action {a}: commit left the store neither in the before- nor in the after-state (result {r:?})"),
        );
    }
    match &r {
        Ok(()) => {
            if !applied {
                wb.violation("commit.atomic", "ok-but-absent", format!("node {n} action {a}: commit returned Ok but the operations are not recorded"));
            }
        }
        Err(e) => {
            if !faulted {
                wb.violation("commit.error", "unexpected-error", format!("node {n} action {a}: commit failed without an injected fault: {e}"));
            }
        }
    }
    if applied {
        ws_after_commit(&mut wb, n, a, &before, &after);
    }
    let status = if applied { LStatus::Committed } else { LStatus::Failed };
    let base_len = wb.server.borrow().chain.index_of(before.base_version).map(|i| i + 1).unwrap_or(0);
    for s in sops {
        wb.ledger[n].push(LedgerOp { action: a, sop: s, status: status.clone(), base_len, undone_when: 0 });
    }
    wb.log(|| format!("n{n} a{a} commit {} ops -> {:?} applied={applied}", all_ops.len(), r.as_ref().map_err(|e| e.to_string())));
}

async fn do_sync(n: usize, a: usize, w: &Rc<RefCell<World>>, replica: &mut Replica<SimStorage>, server: &mut Box<dyn Server>, avoid: bool, in_final: bool) -> bool {
    let f0 = fired_total();
    {
        let wb = w.borrow();
        let mut sw = wb.server.borrow_mut();
        sw.avoid.insert(n, avoid);
        sw.expect_snapshot.remove(&n);
    }
    let ev0 = w.borrow().server.borrow().events.len();
    let was_empty = {
        let st = simstorage::read_store(&w.borrow().stores[n]);
        st.tasks.is_empty() && st.unsynced.is_empty() && st.base_version.is_nil() && st.working_set.iter().all(|x| x.is_none())
    };
    let ws_before = simstorage::read_store(&w.borrow().stores[n]);
    let chain_len0 = w.borrow().server.borrow().chain.versions.len();
    let r = replica.sync(server, avoid).await;
    let faulted = fired_total() > f0;
    let mut wb = w.borrow_mut();
    wb.server.borrow_mut().sync_finished(n, r.is_ok());
    if r.is_ok() && !faulted {
        sent_is_pending(&mut wb, n, a, &ws_before, chain_len0, ev0);
    }
    if r.is_ok() {
        let after = simstorage::read_store(&wb.stores[n]);
        ws_after_rebuild(&mut wb, n, &format!("action {a} sync"), false, &ws_before, &after);
    }
    // probes from the server's event log for this sync
    {
        let sw = wb.server.clone();
        let sw = sw.borrow();
        let mut pulled = false;
        let mut rejected = false;
        let mut pushes = 0;
        let mut asked_snapshot = false;
        for e in &sw.events[ev0..] {
            match e {
                SrvEvent::GetSnapshot { node, found } if *node == n => {
                    asked_snapshot = true;
                    if found.is_some() {
                        wb.probes.entry("sync.started_from_snapshot".into()).and_modify(|x| *x += 1).or_insert(1);
                    }
                }
                SrvEvent::GetChild { node, found: Some(_), .. } if *node == n => pulled = true,
                SrvEvent::Add { node, result, .. } if *node == n => match result {
                    model::AddResult::Ok(_) => {
                        pushes += 1;
                        if pulled {
                            drop(());
                        }
                    }
                    model::AddResult::Expected(_) => rejected = true,
                },
                _ => {}
            }
        }
        drop(sw);
        if asked_snapshot && !was_empty {
            wb.violation("snapshot.nonempty", "requested", format!("node {n} action {a}: a replica that already holds data asked the server for a snapshot"));
        }
        if pulled && pushes > 0 {
            wb.probe("sync.pull_then_push");
        }
        if pushes > 1 {
            wb.probe("sync.multi_batch");
        }
        if rejected {
            wb.probe("sync.rejected_then_retry");
        }
        if rejected && pulled {
            wb.probe("sync.rejected_after_pull");
        }
    }
    match &r {
        Ok(()) => {
            wb.probe("sync.ok");
        }
        Err(e) => {
            let msg = format!("{e:#}");
            if !faulted {
                let sig = if msg.contains("out of sync") { "out-of-sync" } else { "error" };
                wb.violation(
                    "sync.error",
                    sig,
                    format!("node {n} action {a}{}: sync failed although no fault was injected and the server is correct: {msg}", if in_final { " (final phase)" } else { "" }),
                );
            } else {
                wb.probe("sync.failed_by_fault");
                let _ = is_sim_err(e);
            }
        }
    }
    wb.log(|| format!("n{n} a{a} sync avoid={avoid} -> {:?}", r.as_ref().map_err(|e| format!("{e:#}"))));
    r.is_ok()
}

fn sop_same(x: &SOp, y: &SOp) -> bool {
    match (x, y) {
        (SOp::Update { uuid: u1, property: p1, value: v1, ts: t1 }, SOp::Update { uuid: u2, property: p2, value: v2, ts: t2 }) => u1 == u2 && p1 == p2 && v1 == v2 && ts_key(t1) == ts_key(t2),
        _ => x == y,
    }
}

/// "Every version a replica sends [lists], in the order they were made, [the] Create, Delete and
/// Update operations": what node `n` sent during one successful, fault-free sync is a subsequence
/// (conflict losers drop out) of the operations it had pending when the sync began, and is the whole
/// list when the sync received nothing from the server.
fn sent_is_pending(wb: &mut World, n: usize, a: usize, before: &simstorage::StoreState, chain_len0: usize, ev0: usize) {
    let sw = wb.server.clone();
    let sw = sw.borrow();
    let mut sent: Vec<SOp> = Vec::new();
    for v in sw.chain.versions.iter().skip(chain_len0).filter(|v| v.origin == n) {
        match &v.ops {
            Some(o) => sent.extend(o.iter().cloned()),
            None => return,
        }
    }
    let received = sw.events[ev0..].iter().any(|e| match e {
        SrvEvent::GetChild { node, found: Some(_), .. } => *node == n,
        SrvEvent::GetSnapshot { node, found: Some(_) } => *node == n,
        _ => false,
    });
    drop(sw);
    let pending: Vec<SOp> = before.unsynced.iter().filter_map(op_to_sop).collect();
    let mut k = 0;
    for s in &sent {
        while k < pending.len() && !sop_same(&pending[k], s) {
            k += 1;
        }
        if k == pending.len() {
            wb.violation("sent", "not-pending", format!("node {n} action {a}: the sync sent {s:?}, which is not among the operations pending before it (in their order): pending {:?}, sent {:?}", pending, sent));
            return;
        }
        k += 1;
    }
    if !received && sent.len() != pending.len() {
        wb.violation("sent", "incomplete", format!("node {n} action {a}: the sync received nothing from the server, yet it sent {} of the {} operations pending before it: pending {:?}, sent {:?}", sent.len(), pending.len(), pending, sent));
    }
}

async fn do_undo(n: usize, a: usize, w: &Rc<RefCell<World>>, replica: &mut Replica<SimStorage>, then: Option<&[Intent]>) {
    let f0 = fired_total();
    let Ok(undo_ops) = replica.get_undo_operations().await else {
        return;
    };
    {
        // the fetched list is: back to and including the last undo point, else everything unsynced
        let cur = simstorage::read_store(&w.borrow().stores[n]);
        let from = cur.unsynced.iter().rposition(|o| o.is_undo_point()).unwrap_or(0);
        if undo_ops[..] != cur.unsynced[from..] && fired_total() == f0 {
            w.borrow_mut().violation("undo.list", "wrong-range", format!("node {n} action {a}: get_undo_operations returned {} operations, expected the {} since the last undo point", undo_ops.len(), cur.unsynced.len() - from));
        }
    }
    let mut stale = false;
    if let Some(intents) = then {
        let before = simstorage::read_store(&w.borrow().stores[n]);
        do_commit(n, a, w, replica, intents).await;
        let after = simstorage::read_store(&w.borrow().stores[n]);
        stale = after.unsynced.len() != before.unsynced.len();
    }
    let before = simstorage::read_store(&w.borrow().stores[n]);
    // the list is stale iff it is no longer the tail of the unsynchronized operations
    let _ = stale;
    let stale = !(before.unsynced.len() >= undo_ops.len() && before.unsynced[before.unsynced.len() - undo_ops.len()..] == undo_ops[..]);
    let r = replica.commit_reversed_operations(undo_ops.clone()).await;
    let faulted = fired_total() > f0;
    let after = simstorage::read_store(&w.borrow().stores[n]);
    let mut wb = w.borrow_mut();
    let n_real = undo_ops.iter().filter(|o| !o.is_undo_point()).count();
    match &r {
        Ok(true) => {
            if stale {
                wb.violation("undo.stale", "accepted", format!("node {n} action {a}: a stale undo list was accepted"));
            }
            // exactly those operations left the unsynced list
            let ok = before.unsynced.len() >= undo_ops.len() && after.unsynced[..] == before.unsynced[..before.unsynced.len() - undo_ops.len()];
            if !ok && !faulted {
                wb.violation("undo.unsynced", "list", format!("node {n} action {a}: undo reported success but the unsynced list is not the prior list minus the undone operations"));
            }
            // mark the most recent committed ledger entries undone
            mark_undone(&mut wb, n, n_real);
            wb.probe("undo.ok");
            ws_after_rebuild(&mut wb, n, &format!("action {a} undo"), false, &before, &after);
        }
        Ok(false) => {
            if *after != *before {
                wb.violation("undo.stale", "changed", format!("node {n} action {a}: undo reported failure but changed the store"));
            }
            if !stale && !undo_ops.is_empty() && !faulted {
                wb.violation("undo.refused", "fresh", format!("node {n} action {a}: a fresh undo list of {} operations was refused", undo_ops.len()));
            }
            wb.probe("undo.refused");
        }
        Err(e) => {
            if !faulted {
                wb.violation("undo.error", "unexpected-error", format!("node {n} action {a}: undo failed without an injected fault: {e}"));
            }
            // a fault after the undo's own transaction committed: the operations are undone
            if !undo_ops.is_empty() && before.unsynced.len() >= undo_ops.len() && after.unsynced[..] == before.unsynced[..before.unsynced.len() - undo_ops.len()] {
                mark_undone(&mut wb, n, n_real);
            }
        }
    }
    wb.pre_undo[n] = None;
    wb.log(|| format!("n{n} a{a} undo {} ops stale={stale} -> {:?}", undo_ops.len(), r.as_ref().map_err(|e| e.to_string())));
}

fn json_str(s: &str, escape_non_ascii: bool) -> String {
    let mut o = String::from("\"");
    for c in s.chars() {
        match c {
            '"' => o.push_str("\\\""),
            '\\' => o.push_str("\\\\"),
            '\n' => o.push_str("\\n"),
            '\t' => o.push_str("\\t"),
            c if (c as u32) < 0x20 => o.push_str(&format!("\\u{:04x}", c as u32)),
            c if escape_non_ascii && !c.is_ascii() => {
                let mut b = [0u16; 2];
                for u in c.encode_utf16(&mut b) {
                    o.push_str(&format!("\\u{:04x}", u));
                }
            }
            c => o.push(c),
        }
    }
    o.push('"');
    o
}

fn fmt_ts(secs: i64, frac_digits: u32, nanos: u32) -> String {
    // civil from days (Howard Hinnant)
    let days = secs.div_euclid(86400);
    let rem = secs.rem_euclid(86400);
    let z = days + 719468;
    let era = z.div_euclid(146097);
    let doe = z.rem_euclid(146097);
    let yoe = (doe - doe / 1460 + doe / 36524 - doe / 146096) / 365;
    let y = yoe + era * 400;
    let doy = doe - (365 * yoe + yoe / 4 - yoe / 100);
    let mp = (5 * doy + 2) / 153;
    let d = doy - (153 * mp + 2) / 5 + 1;
    let m = if mp < 10 { mp + 3 } else { mp - 9 };
    let y = if m <= 2 { y + 1 } else { y };
    let mut s = format!("{:04}-{:02}-{:02}T{:02}:{:02}:{:02}", y, m, d, rem / 3600, (rem / 60) % 60, rem % 60);
    if frac_digits > 0 {
        let f = format!("{:09}", nanos);
        s.push('.');
        s.push_str(&f[..frac_digits as usize]);
    }
    s.push('Z');
    s
}

/// A foreign implementation appends a version written from the documented grammar.
fn do_foreign(n: usize, a: usize, w: &Rc<RefCell<World>>, intents: &[Intent], fmt: u64) {
    let mut rng = Rng::new(fmt);
    let mut wb = w.borrow_mut();
    let style = wb.sc.style;
    let epoch = wb.epoch;
    let srv = wb.server.clone();
    let mut state = srv.borrow().chain.state_latest().unwrap_or_default();
    let esc = rng.chance(1, 2);
    let mut parts: Vec<String> = Vec::new();
    let ws = |rng: &mut Rng| -> &'static str { *rng.pick(&["", "", " ", "\n", "  \t"]) };
    for (i, it) in intents.iter().enumerate() {
        match it {
            Intent::Create { t } => {
                let u = task_uuid(*t);
                if !state.contains_key(&u) {
                    state.insert(u, Default::default());
                    parts.push(format!("{{{}\"Create\"{}:{}{{\"uuid\":{}\"{}\"{}}}}}", ws(&mut rng), ws(&mut rng), ws(&mut rng), ws(&mut rng), u, ws(&mut rng)));
                }
            }
            Intent::Delete { t } => {
                let u = task_uuid(*t);
                if state.remove(&u).is_some() {
                    parts.push(format!("{{\"Delete\":{{{}\"uuid\":\"{}\"}}}}", ws(&mut rng), u));
                }
            }
            Intent::Set { t, p, ts, .. } | Intent::Remove { t, p, ts } => {
                let u = task_uuid(*t);
                if let Some(task) = state.get_mut(&u) {
                    let prop = prop_name_s(*p, style);
                    let val = if matches!(it, Intent::Set { .. }) { Some(format!("f{n}.{}.{i}{}", epoch * 10_000 + a, if style != 0 { "~✓\"\\" } else { "" })) } else { None };
                    match &val {
                        Some(v) => {
                            task.insert(prop.clone(), v.clone());
                        }
                        None => {
                            task.remove(&prop);
                        }
                    }
                    let digits = *rng.pick(&[0u32, 1, 3, 6, 9]);
                    let nanos = (rng.below(1_000_000_000)) as u32;
                    let unit = wb.sc.ts_unit_ms as i64;
                    let ts = &(if unit == 0 { *ts } else { (*ts * unit).div_euclid(1000) });
                    let mut fields = vec![
                        format!("\"uuid\"{}:{}\"{}\"", ws(&mut rng), ws(&mut rng), u),
                        format!("\"property\":{}", json_str(&prop, esc)),
                        format!("\"value\":{}{}", ws(&mut rng), match &val { Some(v) => json_str(v, esc), None => "null".to_string() }),
                        format!("\"timestamp\":\"{}\"", fmt_ts(EPOCH0 + ts, digits, nanos)),
                    ];
                    rng.shuffle(&mut fields);
                    parts.push(format!("{{\"Update\":{}{{{}}}{}}}", ws(&mut rng), fields.join(&format!(",{}", ws(&mut rng))), ws(&mut rng)));
                }
            }
            Intent::UndoPoint | Intent::Bulk { .. } | Intent::Key { .. } | Intent::SetHuge { .. } | Intent::Ghost { .. } | Intent::Recreate { .. } => {}
        }
    }
    if parts.is_empty() {
        return;
    }
    let doc = format!("{}{{{}\"operations\"{}:{}[{}]{}}}{}", ws(&mut rng), ws(&mut rng), ws(&mut rng), ws(&mut rng), parts.join(&format!("{},{}", ws(&mut rng), ws(&mut rng))), ws(&mut rng), ws(&mut rng));
    let parent = srv.borrow().chain.latest;
    let (r, _) = srv.borrow_mut().do_add_version(usize::MAX, parent, doc.clone().into_bytes());
    // the harness's own decoder must read what the harness wrote (otherwise: harness error)
    let decodable = srv.borrow().chain.versions.last().map(|v| v.ops.is_some()).unwrap_or(false);
    if !decodable {
        wb.violation("harness", "foreign-undecodable", format!("foreign version not decodable by the reference decoder: {doc}"));
    }
    wb.probe("foreign.added");
    wb.log(|| format!("n{n} a{a} foreign version {:?}: {}", r, doc.replace('\n', "\\n")));
}

// ---- working set (C15) -------------------------------------------------------------------------

fn ws_map(ws: &[Option<Uuid>]) -> BTreeMap<usize, Uuid> {
    ws.iter().enumerate().filter_map(|(i, u)| u.map(|u| (i, u))).collect()
}

fn is_pr(p: Option<&model::Props>) -> bool {
    p.and_then(|p| p.get("status")).map(|s| s == "pending" || s == "recurring").unwrap_or(false)
}

/// "a task that becomes pending in a commit is added at the end immediately without disturbing
/// existing numbers"
fn ws_after_commit(wb: &mut World, n: usize, a: usize, before: &StoreState, after: &StoreState) {
    let b = ws_map(&before.working_set);
    let aft = ws_map(&after.working_set);
    if after.working_set.first().map(|x| x.is_some()).unwrap_or(false) {
        wb.violation("ws.commit", "index0", format!("node {n} action {a}: position 0 of the working set is occupied"));
    }
    for (i, u) in &b {
        if aft.get(i) != Some(u) {
            wb.violation("ws.commit", "moved", format!("node {n} action {a}: committing disturbed working-set entry {i} ({})", model::short(u)));
            return;
        }
    }
    let maxb = b.keys().max().copied().unwrap_or(0);
    let members_b: BTreeSet<Uuid> = b.values().copied().collect();
    let mut seen = BTreeSet::new();
    for (i, u) in &aft {
        if !seen.insert(*u) {
            wb.violation("ws.commit", "duplicate", format!("node {n} action {a}: task {} is in the working set twice", model::short(u)));
        }
        if !b.contains_key(i) && *i <= maxb {
            wb.violation("ws.commit", "not-at-end", format!("node {n} action {a}: newcomer {} was not added after the numbers in use ({} <= {})", model::short(u), i, maxb));
        }
    }
    // every task that became pending must now be present
    for (u, p) in &after.tasks {
        if is_pr(Some(p)) && !is_pr(before.tasks.get(u)) && !seen.contains(u) {
            wb.violation("ws.commit", "missing", format!("node {n} action {a}: task {} became pending in this commit but was not added to the working set", model::short(u)));
        }
    }
    // newcomers must be tasks whose status this commit touched
    for (i, u) in &aft {
        if !b.contains_key(i) && !members_b.contains(u) {
            let touched = after.unsynced[before.unsynced.len().min(after.unsynced.len())..].iter().any(|o| matches!(o, Operation::Update { uuid, property, .. } if uuid == u && property == "status"));
            if !touched {
                wb.violation("ws.commit", "spurious", format!("node {n} action {a}: task {} was added to the working set although its status was not changed", model::short(u)));
            }
        }
    }
    if aft.len() > b.len() {
        wb.probe("ws.added_on_commit");
    }
}

/// After a rebuild (explicit, or implied by sync / undo).
fn ws_after_rebuild(wb: &mut World, n: usize, why: &str, renumber: bool, before: &StoreState, after: &StoreState) {
    let b = ws_map(&before.working_set);
    let aft = ws_map(&after.working_set);
    if after.working_set.first().map(|x| x.is_some()).unwrap_or(false) {
        wb.violation("ws.rebuild", "index0", format!("node {n} {why}: position 0 of the working set is occupied"));
    }
    let want: BTreeSet<Uuid> = after.tasks.iter().filter(|(_, p)| is_pr(Some(p))).map(|(u, _)| *u).collect();
    let mut got = BTreeSet::new();
    for u in aft.values() {
        if !got.insert(*u) {
            wb.violation("ws.rebuild", "duplicate", format!("node {n} {why}: task {} is in the working set twice", model::short(u)));
        }
    }
    if got != want {
        let missing: Vec<String> = want.difference(&got).map(model::short).collect();
        let extra: Vec<String> = got.difference(&want).map(model::short).collect();
        wb.violation("ws.rebuild", "membership", format!("node {n} {why}: working set is not exactly the pending/recurring tasks (missing {missing:?}, extra {extra:?})"));
        return;
    }
    let old_index: BTreeMap<Uuid, usize> = b.iter().map(|(i, u)| (*u, *i)).collect();
    let survivors: Vec<(usize, Uuid)> = aft.iter().filter(|(_, u)| old_index.contains_key(u)).map(|(i, u)| (*i, *u)).collect();
    if !renumber {
        for (i, u) in &survivors {
            if old_index[u] != *i {
                wb.violation(
                    "ws.rebuild",
                    "renumbered",
                    format!("node {n} {why}: without renumbering task {} moved from {} to {} (before {:?}, after {:?})", model::short(u), old_index[u], i, fmt_ws(&before.working_set), fmt_ws(&after.working_set)),
                );
                return;
            }
        }
        let max_surv = survivors.iter().map(|x| x.0).max().unwrap_or(0);
        for (i, u) in &aft {
            if !old_index.contains_key(u) && *i <= max_surv {
                wb.violation("ws.rebuild", "newcomer-position", format!("node {n} {why}: newcomer {} got number {i}, not after the numbers in use (max {max_surv})", model::short(u)));
                return;
            }
        }
    } else {
        let idx: Vec<usize> = aft.keys().copied().collect();
        if idx != (1..=aft.len()).collect::<Vec<_>>() {
            wb.violation("ws.rebuild", "gaps", format!("node {n} {why}: after renumbering the tasks do not occupy 1..{}: before {:?}, after {:?}", aft.len(), fmt_ws(&before.working_set), fmt_ws(&after.working_set)));
            return;
        }
        let mut last = 0usize;
        for (_, u) in &survivors {
            if old_index[u] < last {
                wb.violation("ws.rebuild", "order", format!("node {n} {why}: renumbering changed the relative order of tasks (before {:?}, after {:?})", fmt_ws(&before.working_set), fmt_ws(&after.working_set)));
                return;
            }
            last = old_index[u];
        }
    }
    wb.probe("ws.rebuild_checked");
    if b.values().any(|u| !after.tasks.contains_key(u)) {
        wb.probe("ws.rebuild_with_dangling_entry");
    }
    if (1..before.working_set.len()).any(|i| before.working_set[i].is_none()) {
        wb.probe("ws.rebuild_with_gap");
    }
}

fn fmt_ws(ws: &[Option<Uuid>]) -> Vec<String> {
    ws.iter().map(|u| u.map(|u| model::short(&u)).unwrap_or_else(|| "_".into())).collect()
}

async fn do_rebuild(n: usize, a: usize, w: &Rc<RefCell<World>>, replica: &mut Replica<SimStorage>, renumber: bool) {
    let f0 = fired_total();
    let before = simstorage::read_store(&w.borrow().stores[n]);
    let r = replica.rebuild_working_set(renumber).await;
    let faulted = fired_total() > f0;
    let after = simstorage::read_store(&w.borrow().stores[n]);
    let mut wb = w.borrow_mut();
    match r {
        Ok(()) => ws_after_rebuild(&mut wb, n, &format!("action {a} rebuild(renumber={renumber})"), renumber, &before, &after),
        Err(e) => {
            if !faulted {
                wb.violation("ws.rebuild", "error", format!("node {n} action {a}: rebuild failed without an injected fault: {e}"));
            }
        }
    }
    wb.log(|| format!("n{n} a{a} rebuild renumber={renumber}: {:?} -> {:?}", fmt_ws(&before.working_set), fmt_ws(&after.working_set)));
}

// ---- expiration (C20) --------------------------------------------------------------------------

fn parse_i64_like_rust(s: &str) -> Option<i64> {
    let b = s.as_bytes();
    let (neg, digits) = match b.first() {
        Some(b'-') => (true, &s[1..]),
        Some(b'+') => (false, &s[1..]),
        _ => (false, s),
    };
    if digits.is_empty() || !digits.bytes().all(|c| c.is_ascii_digit()) {
        return None;
    }
    let mut v: i128 = 0;
    for c in digits.bytes() {
        v = v * 10 + (c - b'0') as i128;
        if v > (i64::MAX as i128) + 1 {
            return None;
        }
    }
    let v = if neg { -v } else { v };
    if v < i64::MIN as i128 || v > i64::MAX as i128 {
        None
    } else {
        Some(v as i64)
    }
}

const EXPIRY_SECS: i64 = 180 * 86400;

async fn do_expire(n: usize, a: usize, w: &Rc<RefCell<World>>, replica: &mut Replica<SimStorage>, at: i64) {
    let f0 = fired_total();
    let before = simstorage::read_store(&w.borrow().stores[n]);
    let now = EPOCH0 + at;
    // the clock also has a sub-second part (half of the time): "more than 180 days" is decided
    // on the exact instant
    let frac_ns: i64 = if at.rem_euclid(2) == 1 { 500_000_000 } else { 0 };
    interpose::set_now_ns(now * 1_000_000_000 + frac_ns);
    let r = replica.expire_tasks().await;
    interpose::set_now_ns(w.borrow().now_ns);
    let faulted = fired_total() > f0;
    let after = simstorage::read_store(&w.borrow().stores[n]);
    let mut wb = w.borrow_mut();
    // exactly the tasks with status deleted and a readable modification time more than 180 days ago
    let mut expect_gone: BTreeSet<Uuid> = BTreeSet::new();
    for (u, p) in &before.tasks {
        if p.get("status").map(|s| s == "deleted").unwrap_or(false) {
            if let Some(m) = p.get("modified").and_then(|m| parse_i64_like_rust(m)) {
                // representable as a date (chrono's range) and strictly older than 180 days
                if (-8_334_601_228_800..=8_210_266_876_799).contains(&m) && (m as i128) * 1_000_000_000 < (now as i128) * 1_000_000_000 + frac_ns as i128 - (EXPIRY_SECS as i128) * 1_000_000_000 {
                    expect_gone.insert(*u);
                }
            }
        }
    }
    match &r {
        Ok(()) => {
            let mut exp = before.tasks.clone();
            for u in &expect_gone {
                exp.remove(u);
            }
            if exp != after.tasks {
                let wrongly_gone: Vec<String> = before.tasks.keys().filter(|u| !after.tasks.contains_key(u) && !expect_gone.contains(u)).map(|u| format!("{} {:?}", model::short(u), before.tasks[u])).collect();
                let wrongly_kept: Vec<String> = expect_gone.iter().filter(|u| after.tasks.contains_key(u)).map(|u| format!("{} {:?}", model::short(u), before.tasks[u])).collect();
                wb.violation(
                    "expire",
                    if !wrongly_gone.is_empty() { "purged-too-much" } else { "kept-expired" },
                    format!("node {n} action {a}: expire_tasks at now={now}: wrongly purged {wrongly_gone:?}, wrongly kept {wrongly_kept:?}"),
                );
            }
            // recorded as ordinary deletions
            let new_ops = &after.unsynced[before.unsynced.len().min(after.unsynced.len())..];
            let deleted: BTreeSet<Uuid> = new_ops.iter().filter_map(|o| if let Operation::Delete { uuid, .. } = o { Some(*uuid) } else { None }).collect();
            if new_ops.iter().any(|o| !matches!(o, Operation::Delete { .. })) || deleted != expect_gone && exp == after.tasks {
                wb.violation("expire", "operations", format!("node {n} action {a}: the purge was not recorded as exactly one Delete per expired task: {new_ops:?}"));
            }
            for u in &expect_gone {
                wb.expired.insert(*u);
                let base_len = wb.server.borrow().chain.index_of(before.base_version).map(|i| i + 1).unwrap_or(0);
                wb.ledger[n].push(LedgerOp { action: a, sop: SOp::Delete { uuid: *u }, status: LStatus::Committed, base_len, undone_when: 0 });
            }
            if !expect_gone.is_empty() {
                wb.probe("expire.purged");
            }
        }
        Err(e) => {
            if !faulted {
                wb.violation("expire", "error", format!("node {n} action {a}: expire_tasks failed: {e}"));
            }
            // a commit that took effect although it reported an error: the deletions are in the
            // store and belong in the ledger like any committed operation
            let new_ops = &after.unsynced[before.unsynced.len().min(after.unsynced.len())..];
            let base_len = wb.server.borrow().chain.index_of(before.base_version).map(|i| i + 1).unwrap_or(0);
            for o in new_ops {
                if let Operation::Delete { uuid, .. } = o {
                    wb.expired.insert(*uuid);
                    wb.ledger[n].push(LedgerOp { action: a, sop: SOp::Delete { uuid: *uuid }, status: LStatus::Committed, base_len, undone_when: 0 });
                }
            }
        }
    }
    wb.log(|| format!("n{n} a{a} expire at={at} gone={:?} -> {:?}", expect_gone.iter().map(model::short).collect::<Vec<_>>(), r.as_ref().map_err(|e| e.to_string())));
}

/// The most recent `k` committed operations of node `n` have been undone.
fn mark_undone(wb: &mut World, n: usize, mut k: usize) {
    let when = wb.server.borrow().chain.versions.len();
    for e in wb.ledger[n].iter_mut().rev() {
        if k == 0 {
            break;
        }
        if e.status == LStatus::Committed {
            e.status = LStatus::Undone;
            e.undone_when = when;
            k -= 1;
        }
    }
}

/// Replica invariant (docs/src/sync-model.md): tasks == M-apply(state_at(base_version), unsynced ops).
fn post_check(n: usize, w: &Rc<RefCell<World>>, why: &str) {
    let st = simstorage::read_store(&w.borrow().stores[n]);
    let mut wb = w.borrow_mut();
    let base = {
        let sw = wb.server.borrow();
        sw.chain.state_at_version(st.base_version)
    };
    match base {
        Err(e) => {
            wb.violation("invariant", "base-unknown", format!("node {n} after {why}: base version is not on the server's chain: {e}"));
        }
        Ok(mut exp) => {
            for op in st.unsynced.iter().filter_map(op_to_sop) {
                model::apply(&mut exp, &op);
            }
            if exp != st.tasks {
                wb.violation(
                    "invariant",
                    "tasks",
                    format!(
                        "node {n} after {why}: tasks differ from base state + unsynced operations\n  stored:   {}\n  expected: {}",
                        model::fmt_taskset(&st.tasks),
                        model::fmt_taskset(&exp)
                    ),
                );
            }
        }
    }
}

/// This node's server handle: the reference server, or the real backend behind the proxy.
async fn open_server(w: &Rc<RefCell<World>>, n: usize) -> Result<Box<dyn Server>, taskchampion::Error> {
    let (srv, backend, strict) = {
        let wb = w.borrow();
        (wb.server.clone(), wb.backend.clone(), wb.sc.atomic_sync)
    };
    match backend {
        None => Ok(Box::new(SimServer { node: n, world: srv })),
        Some(b) => {
            let inner = b.open(n).await?;
            Ok(Box::new(crate::fam_d::ProxyServer { inner, node: n, world: srv, strict, backend: b.kind }))
        }
    }
}

fn payload_of(kind: u8, n: usize, a: usize) -> Vec<u8> {
    match kind % 5 {
        0 => vec![],
        1 => format!("payload n{n} a{a}").into_bytes(),
        2 => vec![0xff, 0xfe, 0x00, b'x', 0x80, n as u8, a as u8],
        3 => {
            let mut v = format!("big n{n} a{a} ").into_bytes();
            v.resize(1_000_000, b'z');
            v
        }
        _ => (0..=255u8).chain([n as u8, a as u8]).collect(),
    }
}

fn resolve_vref(w: &World, r: &VRef) -> Uuid {
    let sw = w.server.borrow();
    match r {
        VRef::Nil => Uuid::nil(),
        VRef::Latest => sw.chain.latest,
        VRef::Chain(i) => {
            if sw.chain.versions.is_empty() {
                Uuid::nil()
            } else {
                sw.chain.versions[*i as usize % sw.chain.versions.len()].id
            }
        }
        VRef::Unknown(k) => Uuid::from_u128(0x0bad_0000_0000_4000_8000_000000000000u128 + *k as u128),
    }
}

async fn do_srv(n: usize, a: usize, w: &Rc<RefCell<World>>, server: &mut Box<dyn Server>, call: &SrvCall) {
    let f0 = fired_total();
    let res: Result<String, taskchampion::Error> = match call {
        SrvCall::Add { parent, payload } => {
            let p = resolve_vref(&w.borrow(), parent);
            server.add_version(p, payload_of(*payload, n, a)).await.map(|r| format!("{:?}", r.0))
        }
        SrvCall::GetChild { parent } => {
            let p = resolve_vref(&w.borrow(), parent);
            server.get_child_version(p).await.map(|r| match r {
                taskchampion::server::GetVersionResult::Version { version_id, .. } => format!("Version({version_id})"),
                _ => "NoSuchVersion".into(),
            })
        }
        SrvCall::AddSnapshot { version, payload } => {
            let v = resolve_vref(&w.borrow(), version);
            if v.is_nil() {
                return;
            }
            server.add_snapshot(v, payload_of(*payload, n, a)).await.map(|_| "ok".into())
        }
        SrvCall::GetSnapshot => server.get_snapshot().await.map(|r| format!("{:?}", r.map(|x| x.0))),
        SrvCall::Reopen => match open_server(w, n).await {
            Ok(s) => {
                *server = s;
                w.borrow_mut().probe("srv.reopened");
                Ok("reopened".into())
            }
            Err(e) => Err(e),
        },
    };
    let faulted = fired_total() > f0;
    let mut wb = w.borrow_mut();
    if let Err(e) = &res {
        if !faulted {
            wb.violation("protocol.error", "unexpected-error", format!("node {n} action {a}: {call:?} failed without an injected fault: {e:#}"));
        }
    }
    wb.probe("srv.raw_calls");
    wb.log(|| format!("n{n} a{a} {call:?} -> {:?}", res.as_ref().map_err(|e| format!("{e:#}"))));
}

fn make_node(n: usize, w: Rc<RefCell<World>>) -> NodeFut {
    Box::pin(async move {
        let store = w.borrow().stores[n].clone();
        let srv = w.borrow().server.clone();
        // opening the handles is not part of any action (fault plans address actions)
        begin_action(usize::MAX);
        let storage = match simstorage::open_sim(&store, false).await {
            Ok(s) => s,
            Err(e) => {
                w.borrow_mut().violation("storage.open", "node-start", format!("node {n}: cannot open its store: {e:#}"));
                let mut wb = w.borrow_mut();
                let len = wb.sc.scripts[n].len();
                wb.pc[n] = len;
                return;
            }
        };
        let mut replica = Replica::new(storage);
        let _ = srv;
        let mut server: Box<dyn Server> = match open_server(&w, n).await {
            Ok(s) => s,
            Err(e) => {
                w.borrow_mut().violation("server.open", "node-start", format!("node {n}: cannot open its server handle: {e:#}"));
                let mut wb = w.borrow_mut();
                let len = wb.sc.scripts[n].len();
                wb.pc[n] = len;
                return;
            }
        };
        loop {
            let (a, action) = {
                let mut wb = w.borrow_mut();
                let a = wb.pc[n];
                if a >= wb.sc.scripts[n].len() {
                    break;
                }
                wb.pc[n] += 1;
                (a, wb.sc.scripts[n][a].clone())
            };
            begin_action(a);
            let _ = yield_point("act").await;
            {
                let pre = if matches!(action, Action::Undo | Action::StaleUndo { .. }) { Some(simstorage::read_store(&w.borrow().stores[n]).unsynced.clone()) } else { None };
                w.borrow_mut().pre_undo[n] = pre;
            }
            match &action {
                Action::Commit { ops } => do_commit(n, a, &w, &mut replica, ops).await,
                Action::Sync { avoid } => {
                    do_sync(n, a, &w, &mut replica, &mut server, *avoid, false).await;
                }
                Action::Undo => do_undo(n, a, &w, &mut replica, None).await,
                Action::StaleUndo { then } => do_undo(n, a, &w, &mut replica, Some(then)).await,
                Action::CommitRaw { ops } => {
                    let f0 = fired_total();
                    commit_ops(n, a, &w, &mut replica, raw_to_ops(ops), f0).await
                }
                Action::Foreign { ops, fmt } => do_foreign(n, a, &w, ops, *fmt),
                Action::Rebuild { renumber } => do_rebuild(n, a, &w, &mut replica, *renumber).await,
                Action::Expire { at } => do_expire(n, a, &w, &mut replica, *at).await,
                Action::Edit { t, at, muts } => crate::taskmodel::do_edit(n, a, &w, &mut replica, *t, *at, muts).await,
                Action::Srv { call } => do_srv(n, a, &w, &mut server, call).await,
                Action::Legacy { kind, t, arg, at } => crate::taskmodel::do_legacy(n, a, &w, &mut replica, *kind, *t, *arg, *at).await,
            }
            let reads = {
                let wb = w.borrow();
                matches!(wb.sc.check.as_str(), "C07" | "C15" | "C19") && wb.sc.faults.is_empty() && wb.sc.under_test.is_none()
            };
            if reads {
                reads_agree(n, a, &w, &mut replica).await;
            }
            post_check(n, &w, &format!("action {a}"));
        }
    })
}

/// The replica's read API describes the stored data: every bulk getter (tasks, task data, uuids,
/// pending tasks, the working-set view, the operation counters) agrees with what a direct
/// inspection of the store shows.
async fn reads_agree(n: usize, a: usize, w: &Rc<RefCell<World>>, replica: &mut Replica<SimStorage>) {
    let st = simstorage::read_store(&w.borrow().stores[n]);
    let mut errs: Vec<String> = Vec::new();
    let props = |m: &taskchampion::storage::TaskMap| -> model::Props { m.iter().map(|(k, v)| (k.clone(), v.clone())).collect() };
    if let Ok(all) = replica.all_tasks().await {
        let got: model::TaskSet = all.iter().map(|(u, t)| (*u, props(t.get_taskmap()))).collect();
        if got != st.tasks || all.iter().any(|(u, t)| t.get_uuid() != *u) {
            errs.push(format!("all_tasks gives {}, stored {}", model::fmt_taskset(&got), model::fmt_taskset(&st.tasks)));
        }
    }
    if let Ok(all) = replica.all_task_data().await {
        let got: model::TaskSet = all.iter().map(|(u, t)| (*u, t.iter().map(|(k, v)| (k.clone(), v.clone())).collect())).collect();
        if got != st.tasks || all.iter().any(|(u, t)| t.get_uuid() != *u) {
            errs.push(format!("all_task_data gives {}, stored {}", model::fmt_taskset(&got), model::fmt_taskset(&st.tasks)));
        }
    }
    if let Ok(mut us) = replica.all_task_uuids().await {
        us.sort();
        if us != st.tasks.keys().copied().collect::<Vec<_>>() {
            errs.push(format!("all_task_uuids gives {} uuids, stored {}", us.len(), st.tasks.len()));
        }
    }
    // one entry per occupied working-set slot whose task exists
    let mut exp_pending: Vec<(Uuid, model::Props)> = st.working_set.iter().flatten().filter_map(|u| st.tasks.get(u).map(|p| (*u, p.clone()))).collect();
    exp_pending.sort();
    if let Ok(pd) = replica.pending_task_data().await {
        let mut got: Vec<(Uuid, model::Props)> = pd.iter().map(|t| (t.get_uuid(), t.iter().map(|(k, v)| (k.clone(), v.clone())).collect())).collect();
        got.sort();
        if got != exp_pending {
            errs.push(format!("pending_task_data lists {:?}, the working set holds {:?}", got.iter().map(|x| model::short(&x.0)).collect::<Vec<_>>(), exp_pending.iter().map(|x| model::short(&x.0)).collect::<Vec<_>>()));
        }
    }
    if let Ok(pt) = replica.pending_tasks().await {
        let mut got: Vec<(Uuid, model::Props)> = pt.iter().map(|t| (t.get_uuid(), props(t.get_taskmap()))).collect();
        got.sort();
        if got != exp_pending {
            errs.push(format!("pending_tasks lists {:?}, the working set holds {:?}", got.iter().map(|x| model::short(&x.0)).collect::<Vec<_>>(), exp_pending.iter().map(|x| model::short(&x.0)).collect::<Vec<_>>()));
        }
    }
    if let Ok(ws) = replica.working_set().await {
        let n_some = st.working_set.iter().flatten().count();
        let mut bad = ws.len() != n_some || ws.is_empty() != (n_some == 0);
        for i in 0..st.working_set.len() + 2 {
            if ws.by_index(i) != st.working_set.get(i).copied().flatten() {
                bad = true;
            }
        }
        let exp_iter: Vec<(usize, Uuid)> = st.working_set.iter().enumerate().filter_map(|(i, u)| u.map(|u| (i, u))).collect();
        if ws.iter().collect::<Vec<_>>() != exp_iter {
            bad = true;
        }
        for (i, u) in &exp_iter {
            // (a uuid listed twice may report either of its slots)
            match ws.by_uuid(*u) {
                Some(k) if k == *i || exp_iter.iter().any(|(j, v)| v == u && *j == k) => {}
                _ => bad = true,
            }
        }
        if bad {
            errs.push(format!("the WorkingSet view (len {}, entries {:?}) does not describe the stored working set {:?}", ws.len(), ws.iter().collect::<Vec<_>>(), st.working_set));
        }
    }
    let (n_ops, n_undo) = (st.unsynced.iter().filter(|o| !o.is_undo_point()).count(), st.unsynced.iter().filter(|o| o.is_undo_point()).count());
    if let Ok(k) = replica.num_local_operations().await {
        if k != n_ops {
            errs.push(format!("num_local_operations is {k}, the store holds {n_ops} unsynchronized operations"));
        }
    }
    if let Ok(k) = replica.num_undo_points().await {
        if k != n_undo {
            errs.push(format!("num_undo_points is {k}, the store holds {n_undo} undo points"));
        }
    }
    if !errs.is_empty() {
        w.borrow_mut().violation("replica.read", "bulk", format!("node {n} action {a}: {}", errs.join("; ")));
    }
}

fn hash_state(w: &World) -> u64 {
    let mut h = Fnv::default();
    for s in &w.stores {
        let st = simstorage::read_store(s);
        for (u, p) in &st.tasks {
            h.write(u.as_bytes());
            for (k, v) in p {
                h.write_str(k);
                h.write_u64(v.len() as u64);
                h.write(&v.as_bytes()[..v.len().min(32)]);
            }
        }
        h.write_u64(st.unsynced.len() as u64);
    }
    h.write_u64(w.server.borrow().chain.versions.len() as u64);
    h.0
}

type W = Rc<RefCell<World>>;

fn new_world(sc: &Scenario, want_log: bool) -> W {
    let n = sc.nodes;
    let start_ns = EPOCH0 * 1_000_000_000;
    interpose::set_now_ns(start_ns);
    let root = if sc.sqlite || sc.backend != 0 { Some(Rc::new(crate::fam_c::DirGuard(crate::fam_c::run_dir(&sc.check, sc.seed)))) } else { None };
    let backend = if sc.backend != 0 { Some(Rc::new(crate::fam_d::BackendEnv::new(sc.backend, &root.as_ref().unwrap().0.join("backend"), sc.seed))) } else { None };
    if let Some(b) = &backend {
        let _ = std::fs::create_dir_all(&b.root);
    }
    let raw_calls = sc.scripts.iter().flatten().any(|a| matches!(a, Action::Srv { .. }));
    Rc::new(RefCell::new(World {
        backend,
        stores: (0..n).map(|i| if let (Some(r), true) = (&root, sc.sqlite) { let d = r.0.join(format!("n{i}")); let _ = std::fs::create_dir_all(&d); StoreRef::Sqlite(d) } else { StoreRef::Mem(simstorage::new_mem()) }).collect(),
        root: root.clone(),
        dir_counter: Rc::new(std::cell::Cell::new(0)),
        server: Rc::new(RefCell::new({
            let mut sw = ServerWorld::new(sc.srv_seed, sc.urgency_mode, false);
            // raw protocol calls carry arbitrary bytes, not version documents / snapshots
            sw.check_format = !raw_calls;
            sw.check_snapshots = !raw_calls;
            sw
        })),
        pc: vec![0; n],
        ledger: vec![Vec::new(); n],
        violations: Vec::new(),
        probes: BTreeMap::new(),
        log: Vec::new(),
        want_log,
        now_ns: start_ns,
        steps: 0,
        sched_hash: Fnv::default(),
        epoch: 0,
        expired: BTreeSet::new(),
        pre_undo: vec![None; n],
        sc: sc.clone(),
    }))
}

/// Deep copy of a world (durable stores, server, ledger): used to re-execute from the same state.
fn fork(w: &W) -> W {
    let wb = w.borrow();
    let server_copy: ServerWorld = wb.server.borrow().clone();
    Rc::new(RefCell::new(World {
        stores: wb
            .stores
            .iter()
            .enumerate()
            .map(|(i, s)| {
                simstorage::clone_store(s, || {
                    let k = wb.dir_counter.get() + 1;
                    wb.dir_counter.set(k);
                    wb.root.as_ref().unwrap().0.join(format!("f{k}n{i}"))
                })
            })
            .collect(),
        root: wb.root.clone(),
        backend: wb.backend.as_ref().map(|b| {
            let k = wb.dir_counter.get() + 1;
            wb.dir_counter.set(k);
            Rc::new(b.fork(&wb.root.as_ref().unwrap().0.join(format!("backend-f{k}"))))
        }),
        dir_counter: wb.dir_counter.clone(),
        server: Rc::new(RefCell::new(server_copy)),
        pc: wb.pc.clone(),
        ledger: wb.ledger.clone(),
        violations: Vec::new(),
        probes: BTreeMap::new(),
        log: Vec::new(),
        want_log: wb.want_log,
        now_ns: wb.now_ns,
        steps: 0,
        sched_hash: Fnv::default(),
        epoch: wb.epoch,
        expired: wb.expired.clone(),
        pre_undo: wb.pre_undo.clone(),
        sc: wb.sc.clone(),
    }))
}

/// Merge what a forked execution observed back into the parent world.
fn absorb(w: &W, child: &W, tag: &str) {
    let mut wb = w.borrow_mut();
    let cb = child.borrow();
    for v in cb.violations.iter().chain(cb.server.borrow().violations.iter()) {
        let mut v = v.clone();
        if !tag.is_empty() {
            v.sig = format!("{}@{}", v.sig, tag);
            v.detail = format!("[{tag}] {}", v.detail);
        }
        wb.violations.push(v);
    }
    for (k, v) in &cb.probes {
        *wb.probes.entry(k.clone()).or_insert(0) += v;
    }
    wb.steps += cb.steps;
    let h = cb.sched_hash.0;
    wb.sched_hash.write_u64(h);
    if wb.want_log {
        for l in &cb.log {
            wb.log.push(format!("  [{tag}] {l}"));
        }
    }
}

/// Execute the scripts of `w.sc` from the current program counters under the seeded scheduler.
fn run_scripted(w: &W, faults: &[(usize, usize, u32, Decision)], only: Option<&[usize]>) {
    let (n, sched_seed, atomic, bias) = {
        let wb = w.borrow();
        (wb.sc.nodes, wb.sc.sched_seed, wb.sc.atomic_sync, wb.sc.bias)
    };
    exec::with_ctx(|c| {
        c.faults.clear();
        for (node, act, ord, d) in faults {
            c.faults.insert((*node, *act, *ord), *d);
        }
    });
    let mut nodes: Vec<Option<NodeFut>> = (0..n).map(|i| if only.map(|o| o.contains(&i)).unwrap_or(true) { Some(make_node(i, w.clone())) } else { None }).collect();
    let mut parked: Vec<Option<&'static str>> = vec![None; n];
    let mut rng = Rng::new(sched_seed ^ w.borrow().steps);
    let mut steps = 0u64;
    loop {
        let runnable: Vec<usize> = (0..n).filter(|i| nodes[*i].is_some()).collect();
        if runnable.is_empty() {
            break;
        }
        steps += 1;
        if steps > 200_000 {
            w.borrow_mut().violation("liveness", "scripted-phase-steps", "scripted phase did not finish within 200000 scheduler steps".into());
            break;
        }
        // atomic mode: a node that is inside an action (parked at a server request, an object-store
        // request, ...) runs on until it is between actions again
        let in_sync: Vec<usize> = runnable.iter().copied().filter(|i| parked[*i].map(|l| l != "act").unwrap_or(false)).collect();
        let pick = if atomic && !in_sync.is_empty() {
            in_sync[0]
        } else {
            let r = rng.next_u64();
            match bias {
                1 => {
                    // hold nodes that are about to add a version, so that several pile up there
                    let others: Vec<usize> = runnable.iter().copied().filter(|i| parked[*i] != Some("srv.add_version")).collect();
                    if !others.is_empty() && r % 4 != 0 {
                        others[((r >> 8) % others.len() as u64) as usize]
                    } else {
                        runnable[((r >> 8) % runnable.len() as u64) as usize]
                    }
                }
                2 => {
                    // stall node 0 for long stretches
                    let others: Vec<usize> = runnable.iter().copied().filter(|i| *i != 0).collect();
                    if !others.is_empty() && r % 8 != 0 {
                        others[((r >> 8) % others.len() as u64) as usize]
                    } else {
                        runnable[((r >> 8) % runnable.len() as u64) as usize]
                    }
                }
                _ => runnable[(r % runnable.len() as u64) as usize],
            }
        };
        {
            let mut wb = w.borrow_mut();
            wb.sched_hash.write_u64(pick as u64);
            wb.now_ns += 1_000_000_000;
            interpose::set_now_ns(wb.now_ns);
        }
        let out = exec::step(pick, nodes[pick].as_mut().unwrap());
        match out {
            PollOutcome::Parked(l) => parked[pick] = Some(l),
            PollOutcome::Done => {
                nodes[pick] = None;
                parked[pick] = None;
            }
            PollOutcome::Blocked => unreachable!("step() waits"),
            PollOutcome::Crashed => {
                // process stop: drop the node (its Replica, transaction and server handle), keep
                // only the durable store; then restart it with the rest of its script
                nodes[pick] = None;
                parked[pick] = None;
                {
                    let wb = w.borrow();
                    wb.server.borrow_mut().expect_snapshot.remove(&pick);
                }
                w.borrow_mut().probe("node.crash_restart");
                {
                    // an undo that was stopped after its transaction committed has still undone
                    let pre = w.borrow_mut().pre_undo[pick].take();
                    if let Some(pre) = pre {
                        let now = simstorage::read_store(&w.borrow().stores[pick]);
                        if now.unsynced.len() < pre.len() && pre[..now.unsynced.len()] == now.unsynced[..] {
                            let k = pre[now.unsynced.len()..].iter().filter(|o| !o.is_undo_point()).count();
                            let mut wb = w.borrow_mut();
                            mark_undone(&mut wb, pick, k);
                        }
                    }
                }
                w.borrow_mut().log(|| format!("n{pick} crashed and restarted"));
                post_check(pick, w, "crash");
                nodes[pick] = Some(make_node(pick, w.clone()));
            }
        }
    }
    w.borrow_mut().steps += steps;
    exec::with_ctx(|c| c.faults.clear());
}

fn has_violations(w: &W) -> bool {
    let wb = w.borrow();
    let r = !wb.violations.is_empty() || !wb.server.borrow().violations.is_empty();
    r
}

/// Final phase: faults off, every node syncs round-robin until quiescent (bounded liveness).
fn final_phase(w: &W) -> bool {
    let n = w.borrow().sc.nodes;
    final_phase_upto(w, n)
}

fn final_phase_upto(w: &W, n: usize) -> bool {
    exec::with_ctx(|c| c.faults.clear());
    let mut rounds = 0;
    let mut quiescent = false;
    let stores: Vec<StoreRef> = w.borrow().stores.clone();
    let srv = w.borrow().server.clone();
    let mut reps: Vec<(Replica<SimStorage>, Box<dyn Server>)> = Vec::new();
    for i in 0..n {
        match exec::block_on(simstorage::open_sim(&stores[i], false)) {
            Ok(st) => match exec::block_on(open_server(w, i)) {
                Ok(server) => reps.push((Replica::new(st), server)),
                Err(e) => {
                    w.borrow_mut().violation("server.open", "final-phase", format!("node {i}: cannot open its server handle: {e:#}"));
                    return false;
                }
            },
            Err(e) => {
                w.borrow_mut().violation("storage.open", "final-phase", format!("node {i}: cannot open its store: {e:#}"));
                return false;
            }
        }
    }
    while rounds < 4 {
        rounds += 1;
        let len0 = srv.borrow().chain.versions.len();
        let mut all_ok = true;
        for i in 0..n {
            let (rep, server) = &mut reps[i];
            let ok = exec::block_on(do_sync(i, 1000 + rounds, w, rep, server, true, true));
            all_ok &= ok;
            post_check(i, w, "final sync");
        }
        if !all_ok || has_violations(w) {
            break;
        }
        let latest = srv.borrow().chain.latest;
        let settled = (0..n).all(|i| {
            let st = simstorage::read_store(&stores[i]);
            st.base_version == latest && st.unsynced.iter().all(|o| o.is_undo_point())
        });
        if settled && srv.borrow().chain.versions.len() == len0 {
            quiescent = true;
            break;
        }
    }
    if !quiescent && !has_violations(w) {
        w.borrow_mut().violation("liveness", "no-quiescence", format!("replicas did not become quiescent within {rounds} fault-free rounds of syncs"));
    }
    quiescent
}

/// History oracles at quiescence: convergence to the replay of the chain, conservation.
fn history_oracles(w: &W) {
    let mut wb = w.borrow_mut();
    let chain_state = wb.server.borrow().chain.state_latest();
    match chain_state {
        Err(e) => wb.violation("convergence", "chain-undecodable", e),
        Ok(exp) => {
            let stores = wb.stores.clone();
            for (i, s) in stores.iter().enumerate() {
                let st = simstorage::read_store(s);
                if st.tasks != exp {
                    wb.violation(
                        "convergence",
                        "replica-vs-chain",
                        format!(
                            "after quiescence node {i} differs from the replay of the server's versions\n  node:  {}\n  chain: {}",
                            model::fmt_taskset(&st.tasks),
                            model::fmt_taskset(&exp)
                        ),
                    );
                    break;
                }
            }
        }
    }
    conservation(&mut wb);
}

/// A fresh handle on the real backend re-reads the whole chain; the proxy compares each reply
/// with the mirror (ids, parents, bytes) and the end of the chain must be the end.
fn backend_audit(w: &W) {
    exec::with_ctx(|c| c.faults.clear());
    let n = w.borrow().sc.nodes;
    let handle = exec::block_on(open_server(w, n.saturating_sub(1)));
    let mut server = match handle {
        Ok(s) => s,
        Err(e) => {
            w.borrow_mut().violation("server.open", "audit", format!("cannot open a fresh handle: {e:#}"));
            return;
        }
    };
    let parents: Vec<(Uuid, Uuid)> = {
        let wb = w.borrow();
        let sw = wb.server.borrow();
        sw.chain.versions.iter().skip(sw.chain.discarded_before).map(|v| (v.parent, v.id)).collect()
    };
    let latest = w.borrow().server.borrow().chain.latest;
    for (p, id) in parents {
        match exec::block_on(server.get_child_version(p)) {
            Ok(taskchampion::server::GetVersionResult::Version { .. }) => {}
            Ok(_) => {
                w.borrow_mut().violation("protocol.audit", "version-missing", format!("a fresh handle cannot retrieve accepted version {} (child of {})", model::short(&id), model::short(&p)));
                return;
            }
            Err(e) => {
                w.borrow_mut().violation("protocol.audit", "error", format!("a fresh handle fails to read the child of {}: {e:#}", model::short(&p)));
                return;
            }
        }
    }
    if let Ok(taskchampion::server::GetVersionResult::Version { version_id, .. }) = exec::block_on(server.get_child_version(latest)) {
        if !latest.is_nil() || w.borrow().server.borrow().chain.versions.is_empty() {
            w.borrow_mut().violation("protocol.audit", "extra-version", format!("the backend has a child {} of the latest version {}", model::short(&version_id), model::short(&latest)));
        }
    }
    w.borrow_mut().probe("backend.audited");
}

fn parse_scenario(scv: &Value) -> Result<Scenario, RunResult> {
    serde_json::from_value(scv.clone()).map_err(|e| RunResult {
        violations: vec![Violation { oracle: "harness".into(), sig: "bad-scenario".into(), detail: e.to_string() }],
        ..Default::default()
    })
}

fn finish(w: &W, evals: u64, nontrivial_probe: &[&str]) -> RunResult {
    let ctx = exec::uninstall().unwrap();
    let wb = w.borrow();
    let mut probes = wb.probes.clone();
    for (k, v) in &wb.server.borrow().counters {
        *probes.entry(format!("srv.{k}")).or_insert(0) += *v;
    }
    let mut violations = wb.violations.clone();
    violations.extend(wb.server.borrow().violations.iter().cloned());
    let mut trace = ctx.trace;
    trace.write_u64(wb.sched_hash.0);
    let nontrivial = nontrivial_probe.iter().any(|p| probes.get(*p).copied().unwrap_or(0) > 0);
    RunResult {
        violations,
        trace_hash: trace.0,
        state_hash: hash_state(&wb),
        fired: ctx.fired.clone(),
        probes,
        points: ctx.points.iter().map(|(k, v)| (k.to_string(), *v)).collect(),
        sim_seconds: (wb.now_ns - EPOCH0 * 1_000_000_000) as f64 / 1e9,
        steps: wb.steps,
        nontrivial,
        evals,
        log: wb.log.clone(),
    }
}

pub fn run(scv: &Value, want_log: bool) -> RunResult {
    let sc = match parse_scenario(scv) {
        Ok(s) => s,
        Err(r) => return r,
    };
    exec::install(Ctx::new(sc.nodes));
    let w = new_world(&sc, want_log);
    if sc.late > 0 && sc.late < sc.nodes {
        let early: Vec<usize> = (0..sc.nodes - sc.late).collect();
        let late: Vec<usize> = (sc.nodes - sc.late..sc.nodes).collect();
        run_scripted(&w, &sc.faults, Some(&early));
        if !has_violations(&w) && final_phase_upto(&w, sc.nodes - sc.late) {
            // every existing replica is at the latest version: the server may now drop the
            // versions that its snapshot covers
            let wb = w.borrow();
            let mut sw = wb.server.borrow_mut();
            if let Some((sv, _)) = sw.chain.snapshot.clone() {
                if let Some(i) = sw.chain.index_of(sv) {
                    sw.chain.discarded_before = i + 1;
                    drop(sw);
                    drop(wb);
                    w.borrow_mut().probe("c12.versions_discarded");
                }
            }
        }
        if !has_violations(&w) {
            run_scripted(&w, &sc.faults, Some(&late));
        }
    } else {
        run_scripted(&w, &sc.faults, None);
    }
    if sc.backend != 0 && !has_violations(&w) {
        backend_audit(&w);
    }
    if !sc.no_final && !has_violations(&w) && final_phase(&w) {
        history_oracles(&w);
        if sc.check == "C20" {
            // a purged task is gone everywhere; concurrent edits elsewhere must not bring it back
            let mut wb = w.borrow_mut();
            let st = wb.server.borrow().chain.state_latest().unwrap_or_default();
            let back: Vec<String> = wb.expired.iter().filter(|u| st.contains_key(u)).map(model::short).collect();
            if !back.is_empty() {
                wb.violation("expire", "resurrected", format!("tasks {back:?} were purged by expiration but exist again after synchronization"));
            }
        }
    }
    let probe: &[&str] = match sc.check.as_str() {
        "C08" => &["srv.add_version.rejected", "srv.reopened"],
        "C15" => &["ws.rebuild_checked"],
        "C19" => &["edit.sessions"],
        "C20" => &["expire.purged"],
        "C12" => &["srv.add_snapshot"],
        "C14" => &["foreign.added"],
        "C02" => &["srv.add_version.rejected"],
        "C07" => &["undo.ok"],
        _ => &["sync.pull_then_push"],
    };
    finish(&w, 1, probe)
}

// ---- C04 / C05: fault sweeps over one action ----------------------------------------------------

fn set_single_script(w: &W, v: usize, action: Option<Action>, epoch: usize) {
    let mut wb = w.borrow_mut();
    let n = wb.sc.nodes;
    wb.sc.scripts = (0..n).map(|j| if j == v { action.iter().cloned().collect() } else { vec![] }).collect();
    wb.pc = vec![0; n];
    wb.sc.atomic_sync = true;
    wb.epoch = epoch;
}

/// Sweep variant "fault plus race": node `v` runs its action until it is parked at the server
/// request with ordinal `ord` (for which the fault plan holds `kind`); then node `o` performs a
/// whole sync; then `v` goes on, its request failing (before or after taking effect) against a
/// server that has meanwhile moved on.
fn run_raced(w: &W, v: usize, action: &Action, ord: u32, kind: Decision, o: usize) -> bool {
    {
        let mut wb = w.borrow_mut();
        let n = wb.sc.nodes;
        wb.sc.scripts = (0..n).map(|j| if j == v { vec![action.clone()] } else if j == o { vec![Action::Sync { avoid: true }] } else { vec![] }).collect();
        wb.pc = vec![0; n];
        wb.sc.atomic_sync = true;
        wb.epoch = 50;
    }
    let mut node: NodeFut = make_node(v, w.clone());
    let mut raced = false;
    let mut steps = 0u64;
    loop {
        steps += 1;
        if steps > 100_000 {
            w.borrow_mut().violation("liveness", "raced-steps", "raced action did not finish within 100000 steps".into());
            break;
        }
        {
            let mut wb = w.borrow_mut();
            wb.now_ns += 1_000_000_000;
            interpose::set_now_ns(wb.now_ns);
        }
        if !raced {
            exec::with_ctx(|c| {
                c.faults.clear();
                c.faults.insert((v, 0, ord), kind);
            });
        }
        match exec::step(v, &mut node) {
            PollOutcome::Parked(_) => {
                let at = exec::with_ctx(|c| (c.action_idx[v], c.ordinal[v])).unwrap();
                if !raced && at.0 == 0 && at.1 > ord {
                    // v is parked at the request under test: the other replica syncs now
                    raced = true;
                    run_scripted(w, &[], Some(&[o]));
                }
            }
            PollOutcome::Done => break,
            PollOutcome::Blocked | PollOutcome::Crashed => break,
        }
    }
    drop(node);
    exec::with_ctx(|c| c.faults.clear());
    w.borrow_mut().steps += steps;
    raced
}

fn same_store(a: &StoreState, b: &StoreState) -> bool {
    a.tasks == b.tasks && a.base_version == b.base_version && a.unsynced == b.unsynced && a.working_set == b.working_set
}

pub fn run_sweep(scv: &Value, want_log: bool) -> RunResult {
    let sc = match parse_scenario(scv) {
        Ok(s) => s,
        Err(r) => return r,
    };
    exec::install(Ctx::new(sc.nodes));
    let w = new_world(&sc, want_log);
    run_scripted(&w, &sc.faults, None);
    let mut evals = 0u64;
    let Some((v, action)) = sc.under_test.clone() else { return finish(&w, 1, &[]) };
    if has_violations(&w) || v >= sc.nodes {
        return finish(&w, 1, &[]);
    }
    let is_sync = matches!(action, Action::Sync { .. });
    // dry run: count the interruption points of the action and record the uninterrupted outcome
    let dry = fork(&w);
    set_single_script(&dry, v, Some(action.clone()), 50);
    exec::with_ctx(|c| {
        c.record_points = true;
        c.point_log.clear();
    });
    run_scripted(&dry, &[], Some(&[v]));
    let points: Vec<(u32, &'static str)> = exec::with_ctx(|c| {
        c.record_points = false;
        let p = c.point_log.iter().filter(|x| x.0 == v && x.1 == 0).map(|x| (x.2, x.3)).collect();
        c.point_log.clear();
        p
    })
    .unwrap();
    evals += 1;
    if has_violations(&dry) {
        absorb(&w, &dry, "uninterrupted");
        return finish(&w, evals, &[]);
    }
    let before = simstorage::read_store(&w.borrow().stores[v]);
    let after = simstorage::read_store(&dry.borrow().stores[v]);
    let chain_after = dry.borrow().server.borrow().chain.state_latest().unwrap_or_default();
    if is_sync {
        let ev = &dry.borrow().probes;
        if ev.contains_key("sync.pull_then_push") {
            w.borrow_mut().probe("sweep.sync_pull_then_push");
        }
        if ev.contains_key("sync.multi_batch") {
            w.borrow_mut().probe("sweep.sync_multi_batch");
        }
    }
    w.borrow_mut().probe("sweep.actions");
    let inside_backend = sc.check == "C11";
    let mut points = points;
    if inside_backend {
        points.retain(|p| p.1.starts_with("os.") || p.1.starts_with("fp."));
    }
    if sc.sweep_max > 0 && points.len() > sc.sweep_max as usize {
        let mut prng = Rng::new(mix(sc.seed, "sweep-sample", 0));
        prng.shuffle(&mut points);
        points.truncate(sc.sweep_max as usize);
        points.sort();
    }
    'sweep: for (ord, label) in points {
        if label == "act" {
            continue;
        }
        // C11 interrupts the steps inside the server backend only (object-store requests,
        // failpoints between database statements / git commands / file writes)
        if inside_backend && !(label.starts_with("os.") || label.starts_with("fp.")) {
            continue;
        }
        let kinds: &[Decision] = if label.starts_with("fp.") { &[Decision::FailBefore] } else { &[Decision::FailBefore, Decision::FailAfter, Decision::Crash] };
        for &kind in kinds {
            let c = fork(&w);
            set_single_script(&c, v, Some(action.clone()), 50);
            run_scripted(&c, &[(v, 0, ord, kind)], Some(&[v]));
            evals += 1;
            let tag = if sc.backend != 0 { format!("{}:{label}/{}", crate::fam_d::backend_name(sc.backend), kind.name()) } else { format!("{label}/{}", kind.name()) };
            w.borrow_mut().probe("sweep.points");
            if !has_violations(&c) {
                let st = simstorage::read_store(&c.borrow().stores[v]);
                if !is_sync {
                    // all or nothing
                    if !same_store(&st, &before) && !same_store(&st, &after) {
                        c.borrow_mut().violation(
                            "commit.atomic",
                            "partial",
                            format!("node {v}: after an interruption at point #{ord} the store is neither the before- nor the after-state of the commit\n  before: {} ({} unsynced)\n  after:  {} ({} unsynced)\n  found:  {} ({} unsynced)",
                                model::fmt_taskset(&before.tasks), before.unsynced.len(), model::fmt_taskset(&after.tasks), after.unsynced.len(), model::fmt_taskset(&st.tasks), st.unsynced.len()),
                        );
                    }
                } else {
                    // synchronizing again reaches the result of the uninterrupted sync
                    set_single_script(&c, v, Some(Action::Sync { avoid: true }), 51);
                    run_scripted(&c, &[], Some(&[v]));
                    if !has_violations(&c) {
                        let st2 = simstorage::read_store(&c.borrow().stores[v]);
                        let chain2 = c.borrow().server.borrow().chain.state_latest().unwrap_or_default();
                        if st2.tasks != after.tasks || chain2 != chain_after {
                            c.borrow_mut().violation(
                                "resync",
                                "differs",
                                format!("node {v}: sync interrupted at point #{ord}, then repeated: result differs from the uninterrupted sync\n  uninterrupted: replica {} chain {}\n  repeated:      replica {} chain {}",
                                    model::fmt_taskset(&after.tasks), model::fmt_taskset(&chain_after), model::fmt_taskset(&st2.tasks), model::fmt_taskset(&chain2)),
                            );
                        } else if !st2.unsynced.iter().all(|o| o.is_undo_point()) {
                            c.borrow_mut().violation("resync", "pending", format!("node {v}: after the repeated sync operations are still unsynchronized"));
                        }
                    }
                    if !has_violations(&c) && !sc.no_final && final_phase(&c) {
                        history_oracles(&c);
                    }
                }
            }
            let bad = has_violations(&c);
            absorb(&w, &c, &tag);
            if bad {
                break 'sweep;
            }
        }
        // fault plus race: the same request fails while another replica has synchronized between
        // this sync's previous request and the failing one
        if is_sync && !inside_backend && label.starts_with("srv.") && sc.nodes >= 2 {
            for &kind in &[Decision::FailBefore, Decision::FailAfter] {
                let o = (v + 1 + (ord as usize % (sc.nodes - 1))) % sc.nodes;
                let c = fork(&w);
                let raced = run_raced(&c, v, &action, ord, kind, o);
                evals += 1;
                if raced {
                    w.borrow_mut().probe("sweep.raced_points");
                }
                if !has_violations(&c) {
                    set_single_script(&c, v, Some(Action::Sync { avoid: true }), 51);
                    run_scripted(&c, &[], Some(&[v]));
                    if !has_violations(&c) {
                        let st2 = simstorage::read_store(&c.borrow().stores[v]);
                        if !st2.unsynced.iter().all(|o| o.is_undo_point()) {
                            c.borrow_mut().violation("resync", "pending", format!("node {v}: after the repeated sync operations are still unsynchronized"));
                        }
                    }
                    if !has_violations(&c) && !sc.no_final && final_phase(&c) {
                        history_oracles(&c);
                    }
                }
                let bad = has_violations(&c);
                absorb(&w, &c, &format!("{label}/{}+race", kind.name()));
                if bad {
                    break 'sweep;
                }
            }
        }
    }
    finish(&w, evals, &["sweep.points"])
}

fn gen_raw(rng: &mut Rng, tasks: u8, props: u8, tag: &str) -> Vec<RawOp> {
    let k = rng.usize_below(9);
    let mut v = Vec::new();
    for i in 0..k {
        let t = rng.below(tasks as u64) as u8;
        let p = rng.below(props as u64) as u8;
        let x = rng.below(100);
        v.push(if x < 22 {
            RawOp::Create { t }
        } else if x < 40 {
            let old = (0..rng.below(3)).map(|j| (j as u8, format!("old{j}"))).collect();
            RawOp::Delete { t, old }
        } else if x < 90 {
            let val = if rng.chance(1, 5) { None } else { Some(format!("r{tag}.{i}")) };
            // the recorded previous value is undo bookkeeping only: absent, something else, or
            // (as a stale handle records when it sets a property back) equal to the new value
            let old = match rng.below(6) {
                0..=2 => None,
                3..=4 => Some(format!("o{i}")),
                _ => val.clone(),
            };
            RawOp::Update { t, p, old, val, ts: rng.range(-3, 3) }
        } else {
            RawOp::UndoPoint
        });
    }
    v
}

pub fn gen_c04(seed: u64, i: u64, thorough: bool) -> Value {
    let s = mix(seed, "C04", i);
    let mut rng = Rng::new(s);
    let nodes = *rng.pick(&[1usize, 2, 2, 2, 3, 3]);
    let mut g = GenCfg { ghosts: true, tasks: 1 + rng.below(3) as u8, props: 1 + rng.below(3) as u8, ts_policy: rng.below(4) as u8, ts_counter: 0 };
    let big_run = rng.chance(1, if thorough { 40 } else { 120 });
    let v = rng.usize_below(nodes);
    let statuses = rng.chance(1, 3);
    let mut scripts = Vec::new();
    for n in 0..nodes {
        let len = 1 + rng.usize_below(if big_run { 3 } else { 7 });
        let mut sc = Vec::new();
        for _ in 0..len {
            if rng.chance(4, 10) {
                sc.push(Action::Sync { avoid: rng.chance(1, 2) });
            } else if statuses && rng.chance(2, 3) {
                // status changes, so that the working-set rebuild that ends a sync has work to do
                sc.push(Action::Commit { ops: gen_status_intents(&mut rng, &mut g, 4) });
            } else {
                sc.push(Action::Commit { ops: gen_intents(&mut rng, &mut g, 4, true) });
            }
        }
        if n == v && rng.chance(4, 5) {
            let mut ops = if statuses && rng.chance(1, 2) { gen_status_intents(&mut rng, &mut g, 4) } else { gen_intents(&mut rng, &mut g, 4, false) };
            if big_run {
                let t = rng.below(g.tasks as u64) as u8;
                ops.insert(0, Intent::Create { t });
                for _ in 0..3 {
                    ops.push(Intent::Set { t, p: rng.below(g.props as u64) as u8, ts: gen_ts(&mut rng, &mut g), big: true });
                }
                ops.push(Intent::Set { t, p: rng.below(g.props as u64) as u8, ts: gen_ts(&mut rng, &mut g), big: false });
            }
            sc.push(Action::Commit { ops });
        }
        scripts.push(sc);
    }
    let sc = Scenario {
        check: "C04".into(),
        seed: s,
        nodes,
        scripts,
        sched_seed: rng.next_u64(),
        atomic_sync: rng.chance(1, 2),
        bias: 0,
        faults: vec![],
        urgency_mode: *rng.pick(&[0u8, 1, 1, 2]),
        srv_seed: rng.next_u64(),
        rounds: vec![],
        under_test: Some((v, Action::Sync { avoid: rng.chance(1, 2) })),
        no_final: false,
        style: 0,
        late: 0,
        sqlite: rng.chance(1, if thorough { 30 } else { 500 }),
        ts_unit_ms: *rng.pick(&[0u32, 0, 0, 250, 100, 1]),
        kill_budget: 0,
        sweep_max: 0,
        backend: 0,
    };
    serde_json::to_value(sc).unwrap()
}

pub fn gen_c05(seed: u64, i: u64, thorough: bool) -> Value {
    let s = mix(seed, "C05", i);
    let mut rng = Rng::new(s);
    let nodes = *rng.pick(&[1usize, 1, 2]);
    let mut g = GenCfg { ghosts: false, tasks: 1 + rng.below(3) as u8, props: 1 + rng.below(3) as u8, ts_policy: rng.below(4) as u8, ts_counter: 0 };
    let mut scripts = Vec::new();
    for n in 0..nodes {
        let len = rng.usize_below(6);
        let mut sc = Vec::new();
        for _ in 0..len {
            match rng.below(10) {
                0..=2 => sc.push(Action::Sync { avoid: true }),
                3 => sc.push(Action::Undo),
                _ => sc.push(Action::Commit { ops: gen_intents(&mut rng, &mut g, 5, true) }),
            }
        }
        if n == 0 {
            // arbitrary batches, valid or not, on whatever state the history produced
            for k in 0..rng.usize_below(4) {
                sc.push(Action::CommitRaw { ops: gen_raw(&mut rng, g.tasks, g.props, &format!("{k}")) });
            }
        }
        scripts.push(sc);
    }
    let under = if rng.chance(2, 3) { Action::CommitRaw { ops: gen_raw(&mut rng, g.tasks, g.props, "u") } } else { Action::Commit { ops: gen_intents(&mut rng, &mut g, 6, true) } };
    let sc = Scenario {
        check: "C05".into(),
        seed: s,
        nodes,
        scripts,
        sched_seed: rng.next_u64(),
        atomic_sync: true,
        bias: 0,
        faults: vec![],
        urgency_mode: 0,
        srv_seed: rng.next_u64(),
        rounds: vec![],
        under_test: Some((0, under)),
        no_final: true,
        style: 0,
        late: 0,
        sqlite: rng.chance(1, if thorough { 30 } else { 500 }),
        ts_unit_ms: 0,
        kill_budget: 0,
        sweep_max: 0,
        backend: 0,
    };
    serde_json::to_value(sc).unwrap()
}

pub fn gen_c07(seed: u64, i: u64, thorough: bool) -> Value {
    let s = mix(seed, "C07", i);
    let mut rng = Rng::new(s);
    let nodes = *rng.pick(&[1usize, 1, 2, 2, 3]);
    let mut g = GenCfg { ghosts: false, tasks: 1 + rng.below(3) as u8, props: 1 + rng.below(3) as u8, ts_policy: rng.below(4) as u8, ts_counter: 0 };
    let mut scripts = Vec::new();
    for _ in 0..nodes {
        let len = 2 + rng.usize_below(12);
        let mut sc = Vec::new();
        for _ in 0..len {
            match rng.below(20) {
                0..=3 => sc.push(Action::Sync { avoid: rng.chance(1, 2) }),
                4..=8 => sc.push(Action::Undo),
                9..=10 => sc.push(Action::StaleUndo { then: gen_intents(&mut rng, &mut g, 3, true) }),
                _ => {
                    let mut ops = gen_intents(&mut rng, &mut g, 5, true);
                    if rng.chance(2, 3) {
                        ops.insert(0, Intent::UndoPoint);
                    }
                    sc.push(Action::Commit { ops });
                }
            }
        }
        scripts.push(sc);
    }
    // in a quarter of the runs a long-deleted task is purged by expiration (recorded as an
    // ordinary deletion) and the purge is undone like any other change
    if rng.chance(1, 4) {
        let n = rng.usize_below(nodes);
        let t = rng.below(g.tasks as u64) as u8;
        let mut ops = vec![Intent::Create { t }, Intent::Key { t, key: "status".into(), val: Some("deleted".into()), ts: 0 }, Intent::Key { t, key: "modified".into(), val: Some(crate::interpose::EPOCH0.to_string()), ts: 0 }];
        for p in 0..g.props {
            ops.push(Intent::Set { t, p, ts: gen_ts(&mut rng, &mut g), big: false });
        }
        let at = rng.usize_below(scripts[n].len() + 1);
        let mut ins = vec![Action::Commit { ops }];
        if rng.chance(1, 2) {
            ins.push(Action::Sync { avoid: true });
        }
        if rng.chance(1, 2) {
            ins.push(Action::Commit { ops: vec![Intent::UndoPoint, Intent::Set { t: (t + 1) % g.tasks, p: 0, ts: gen_ts(&mut rng, &mut g), big: false }] });
        }
        ins.push(Action::Expire { at: 400 * DAY });
        ins.push(Action::Undo);
        for (k, x) in ins.into_iter().enumerate() {
            scripts[n].insert(at + k, x);
        }
    }
    let sc = Scenario {
        check: "C07".into(),
        seed: s,
        nodes,
        scripts,
        sched_seed: rng.next_u64(),
        atomic_sync: rng.chance(2, 3),
        bias: 0,
        faults: if rng.chance(1, 5) { random_faults(&mut rng, nodes, 4) } else { vec![] },
        urgency_mode: 0,
        srv_seed: rng.next_u64(),
        rounds: vec![],
        under_test: None,
        no_final: false,
        style: 0,
        late: 0,
        sqlite: rng.chance(1, if thorough { 40 } else { 400 }),
        ts_unit_ms: 0,
        kill_budget: 0,
        sweep_max: 0,
        backend: 0,
    };
    serde_json::to_value(sc).unwrap()
}

pub fn gen_c12(seed: u64, i: u64, thorough: bool) -> Value {
    let s = mix(seed, "C12", i);
    let mut rng = Rng::new(s);
    let early = *rng.pick(&[1usize, 2, 2, 3]);
    let late = *rng.pick(&[0usize, 1, 1, 2]);
    let nodes = early + late;
    let mut g = GenCfg { ghosts: true, tasks: 1 + rng.below(4) as u8, props: 1 + rng.below(4) as u8, ts_policy: rng.below(4) as u8, ts_counter: 0 };
    let big_run = rng.chance(1, if thorough { 25 } else { 60 });
    let bulk_run = thorough && rng.chance(1, 200);
    let mut scripts = Vec::new();
    for n in 0..nodes {
        let is_late = n >= early;
        let len = 1 + rng.usize_below(if big_run { 4 } else { 10 });
        let mut sc = Vec::new();
        if is_late {
            sc.push(Action::Sync { avoid: rng.chance(1, 2) });
        }
        for k in 0..len {
            if rng.chance(45, 100) {
                sc.push(Action::Sync { avoid: rng.chance(1, 2) });
            } else {
                let mut ops = gen_intents(&mut rng, &mut g, 5, true);
                if big_run && rng.chance(1, 2) {
                    let t = rng.below(g.tasks as u64) as u8;
                    ops.insert(0, Intent::Create { t });
                    for _ in 0..(2 + rng.below(2)) {
                        ops.push(Intent::Set { t, p: rng.below(g.props as u64) as u8, ts: gen_ts(&mut rng, &mut g), big: true });
                    }
                    ops.push(Intent::Set { t, p: rng.below(g.props as u64) as u8, ts: gen_ts(&mut rng, &mut g), big: false });
                }
                if bulk_run && n == 0 && k == 0 {
                    ops.push(Intent::Bulk { n: 1500 + rng.below(2500) as u16 });
                }
                sc.push(Action::Commit { ops });
            }
        }
        if !is_late && rng.chance(2, 3) {
            sc.push(Action::Sync { avoid: rng.chance(1, 3) });
        }
        scripts.push(sc);
    }
    let sc = Scenario {
        check: "C12".into(),
        seed: s,
        nodes,
        scripts,
        sched_seed: rng.next_u64(),
        atomic_sync: rng.chance(1, 2),
        bias: rng.below(3) as u8,
        // (a late joiner whose very first sync fails may go on to edit locally and can then not sync
        // against a server that has discarded old versions: no faults in runs with late joiners)
        faults: if late == 0 && rng.chance(1, 4) { random_faults(&mut rng, nodes, 4) } else { vec![] },
        urgency_mode: *rng.pick(&[1u8, 1, 1, 2, 3]),
        srv_seed: rng.next_u64(),
        rounds: vec![],
        under_test: None,
        no_final: false,
        style: rng.below(2) as u8,
        late,
        sqlite: false,
        ts_unit_ms: *rng.pick(&[0u32, 0, 0, 250, 100, 1]),
        kill_budget: 0,
        sweep_max: 0,
        backend: 0,
    };
    serde_json::to_value(sc).unwrap()
}

pub fn gen_c14(seed: u64, i: u64, _thorough: bool) -> Value {
    let s = mix(seed, "C14", i);
    let mut rng = Rng::new(s);
    let nodes = *rng.pick(&[1usize, 2, 2, 3]);
    let mut g = GenCfg { ghosts: false, tasks: 1 + rng.below(4) as u8, props: 1 + rng.below(5) as u8, ts_policy: rng.below(4) as u8, ts_counter: 0 };
    let mut scripts = Vec::new();
    for _ in 0..nodes {
        let len = 2 + rng.usize_below(10);
        let mut sc = Vec::new();
        for _ in 0..len {
            match rng.below(20) {
                0..=7 => sc.push(Action::Sync { avoid: rng.chance(1, 2) }),
                8..=11 => sc.push(Action::Foreign { ops: gen_intents(&mut rng, &mut g, 5, false), fmt: rng.next_u64() }),
                12 => sc.push(Action::Undo),
                _ => {
                    let mut ops = gen_intents(&mut rng, &mut g, 6, true);
                    if rng.chance(1, 2) {
                        ops.insert(0, Intent::UndoPoint);
                    }
                    sc.push(Action::Commit { ops });
                }
            }
        }
        scripts.push(sc);
    }
    // now and then one replica's pending changes exceed the one-megabyte batch limit, so that
    // one sync sends several versions (each of which must be a document of its own)
    if rng.chance(1, 60) {
        let n = rng.usize_below(nodes);
        let t = rng.below(g.tasks as u64) as u8;
        let mut ops = vec![Intent::Create { t }];
        for _ in 0..3 {
            ops.push(Intent::Set { t, p: rng.below(g.props as u64) as u8, ts: gen_ts(&mut rng, &mut g), big: true });
        }
        ops.push(Intent::Set { t, p: rng.below(g.props as u64) as u8, ts: gen_ts(&mut rng, &mut g), big: false });
        let at = rng.usize_below(scripts[n].len() + 1);
        scripts[n].insert(at, Action::Commit { ops });
        scripts[n].insert(at + 1, Action::Sync { avoid: true });
    }
    let sc = Scenario {
        check: "C14".into(),
        seed: s,
        nodes,
        scripts,
        sched_seed: rng.next_u64(),
        atomic_sync: true,
        bias: 0,
        faults: vec![],
        urgency_mode: 0,
        srv_seed: rng.next_u64(),
        rounds: vec![],
        under_test: None,
        no_final: false,
        style: rng.below(2) as u8,
        late: 0,
        sqlite: false,
        ts_unit_ms: *rng.pick(&[0u32, 250, 100, 1]),
        kill_budget: 0,
        sweep_max: 0,
        backend: 0,
    };
    serde_json::to_value(sc).unwrap()
}

const STATUSES: &[&str] = &["pending", "completed", "deleted", "recurring", "pending", "weird"];

fn gen_status_intents(rng: &mut Rng, g: &mut GenCfg, max: usize) -> Vec<Intent> {
    let k = 1 + rng.usize_below(max);
    let mut v = Vec::new();
    for _ in 0..k {
        let t = rng.below(g.tasks as u64) as u8;
        match rng.below(20) {
            0..=3 => {
                v.push(Intent::Create { t });
                if rng.chance(3, 4) {
                    v.push(Intent::Key { t, key: "status".into(), val: Some(rng.pick(STATUSES).to_string()), ts: gen_ts(rng, g) });
                }
            }
            4..=12 => v.push(Intent::Key { t, key: "status".into(), val: if rng.chance(1, 12) { None } else { Some(rng.pick(STATUSES).to_string()) }, ts: gen_ts(rng, g) }),
            13..=15 => v.push(Intent::Delete { t }),
            16 => v.push(Intent::UndoPoint),
            _ => v.push(Intent::Set { t, p: 0, ts: gen_ts(rng, g), big: false }),
        }
    }
    v
}

pub fn gen_c15(seed: u64, i: u64, thorough: bool) -> Value {
    let s = mix(seed, "C15", i);
    let mut rng = Rng::new(s);
    let nodes = *rng.pick(&[1usize, 1, 2, 2, 3]);
    let mut g = GenCfg { ghosts: false, tasks: 2 + rng.below(5) as u8, props: 1, ts_policy: rng.below(4) as u8, ts_counter: 0 };
    let mut scripts = Vec::new();
    for _ in 0..nodes {
        let len = 3 + rng.usize_below(14);
        let mut sc = Vec::new();
        for _ in 0..len {
            match rng.below(20) {
                0..=3 => sc.push(Action::Sync { avoid: true }),
                4..=8 => sc.push(Action::Rebuild { renumber: rng.chance(1, 2) }),
                9 => sc.push(Action::Undo),
                _ => sc.push(Action::Commit { ops: gen_status_intents(&mut rng, &mut g, 4) }),
            }
        }
        scripts.push(sc);
    }
    let sc = Scenario {
        check: "C15".into(),
        seed: s,
        nodes,
        scripts,
        sched_seed: rng.next_u64(),
        atomic_sync: true,
        bias: 0,
        faults: vec![],
        urgency_mode: 0,
        srv_seed: rng.next_u64(),
        rounds: vec![],
        under_test: None,
        no_final: false,
        style: 0,
        late: 0,
        sqlite: rng.chance(1, if thorough { 30 } else { 500 }),
        ts_unit_ms: 0,
        kill_budget: 0,
        sweep_max: 0,
        backend: 0,
    };
    serde_json::to_value(sc).unwrap()
}

const DAY: i64 = 86400;

pub fn gen_c20(seed: u64, i: u64, _thorough: bool) -> Value {
    let s = mix(seed, "C20", i);
    let mut rng = Rng::new(s);
    let nodes = *rng.pick(&[1usize, 2, 2, 3]);
    let tasks = 2 + rng.below(5) as u8;
    let mut g = GenCfg { ghosts: false, tasks, props: 2, ts_policy: rng.below(4) as u8, ts_counter: 0 };
    // the instants at which replicas will expire
    let at0 = rng.range(-30, 400) * DAY + rng.range(0, DAY - 1);
    let modified_val = |rng: &mut Rng, at: i64| -> Option<String> {
        let now = crate::interpose::EPOCH0 + at;
        match rng.below(16) {
            0 => None,
            1 => Some("abc".into()),
            2 => Some("".into()),
            3 => Some("99999999999999999".into()),
            4 => Some("9223372036854775808".into()),
            5 => Some(format!(" {}", now - 200 * DAY)),
            6 => Some(format!("{}.0", now - 200 * DAY)),
            7 => Some((now + rng.range(1, 1000 * DAY)).to_string()),
            8 => Some((now - 180 * DAY).to_string()),
            9 => Some((now - 180 * DAY - 1).to_string()),
            10 => Some((now - 180 * DAY + 1).to_string()),
            11 => Some((now - rng.range(181, 4000) * DAY).to_string()),
            12 => Some(rng.pick(&["-1", "-99999", "-99999999999999999", "-9223372036854775808", "-8334601228801", "9223372036854775807"]).to_string()),
            13 => Some(format!("+{}", now - 300 * DAY)),
            _ => Some((now - rng.range(0, 179) * DAY).to_string()),
        }
    };
    let mut first = Vec::new();
    for t in 0..tasks {
        first.push(Intent::Create { t });
        first.push(Intent::Key { t, key: "status".into(), val: Some(rng.pick(&["deleted", "deleted", "deleted", "pending", "completed", "recurring", "Deleted"]).to_string()), ts: 0 });
        if let Some(m) = modified_val(&mut rng, at0) {
            first.push(Intent::Key { t, key: "modified".into(), val: Some(m), ts: 0 });
        }
        // other times a task carries (only `modified` decides expiry)
        for key in ["end", "entry", "wait", "due"] {
            if rng.chance(1, 3) {
                let now = crate::interpose::EPOCH0 + at0;
                let v = if rng.chance(2, 3) { now - rng.range(181, 4000) * DAY } else { now - rng.range(0, 179) * DAY };
                first.push(Intent::Key { t, key: key.into(), val: Some(v.to_string()), ts: 0 });
            }
        }
    }
    let mut scripts = Vec::new();
    for n in 0..nodes {
        let mut sc = Vec::new();
        if n == 0 {
            sc.push(Action::Commit { ops: first.clone() });
        }
        sc.push(Action::Sync { avoid: true });
        let len = 1 + rng.usize_below(8);
        for _ in 0..len {
            match rng.below(10) {
                0..=2 => sc.push(Action::Sync { avoid: true }),
                3..=5 => sc.push(Action::Expire { at: at0 + *rng.pick(&[0i64, 0, 0, 1, -1, DAY, -DAY, 200 * DAY]) }),
                _ => {
                    // concurrent edits of existing tasks (no creation, no outright deletion)
                    let k = 1 + rng.usize_below(3);
                    let mut ops = Vec::new();
                    for _ in 0..k {
                        let t = rng.below(tasks as u64) as u8;
                        match rng.below(4) {
                            0 => ops.push(Intent::Key { t, key: "status".into(), val: Some(rng.pick(&["deleted", "pending", "completed"]).to_string()), ts: gen_ts(&mut rng, &mut g) }),
                            1 => ops.push(Intent::Key { t, key: "modified".into(), val: modified_val(&mut rng, at0), ts: gen_ts(&mut rng, &mut g) }),
                            _ => ops.push(Intent::Set { t, p: rng.below(2) as u8, ts: gen_ts(&mut rng, &mut g), big: false }),
                        }
                    }
                    sc.push(Action::Commit { ops });
                }
            }
        }
        scripts.push(sc);
    }
    let sc = Scenario {
        check: "C20".into(),
        seed: s,
        nodes,
        scripts,
        sched_seed: rng.next_u64(),
        atomic_sync: rng.chance(1, 2),
        bias: 0,
        faults: vec![],
        urgency_mode: 0,
        srv_seed: rng.next_u64(),
        rounds: vec![],
        under_test: None,
        no_final: false,
        style: 0,
        late: 0,
        sqlite: false,
        ts_unit_ms: 0,
        kill_budget: 0,
        sweep_max: 0,
        backend: 0,
    };
    serde_json::to_value(sc).unwrap()
}

pub fn gen_c19(seed: u64, i: u64, _thorough: bool) -> Value {
    use crate::taskmodel::Mut;
    let s = mix(seed, "C19", i);
    let mut rng = Rng::new(s);
    let nodes = *rng.pick(&[1usize, 1, 2]);
    let tasks = 1 + rng.below(4) as u8;
    let mut g = GenCfg { ghosts: false, tasks, props: 2, ts_policy: 0, ts_counter: 0 };
    let clock_policy = rng.below(4);
    let mut at = rng.range(-400, 400) * DAY;
    const TAGS: &[&str] = &["next", "work", "a:b", "+x", "1st", "PENDING", "WAITING", "FOO", "üni", "x y", "", "ok-1", "Home"];
    const UDAS: &[&str] = &["githubid", "ns.key", "status", "tag_x", "annotation_1", "dep_x", "modified", "estimate", "end"];
    let mut scripts = Vec::new();
    for _ in 0..nodes {
        let len = 2 + rng.usize_below(10);
        let mut sc = Vec::new();
        for _ in 0..len {
            match rng.below(20) {
                0..=2 => sc.push(Action::Sync { avoid: true }),
                3 => {
                    if rng.chance(1, 2) {
                        sc.push(Action::Rebuild { renumber: rng.chance(1, 2) })
                    } else {
                        sc.push(Action::Legacy { kind: rng.below(5) as u8, t: rng.below(tasks as u64) as u8, arg: rng.below(6) as u8, at: rng.range(-400, 400) * DAY })
                    }
                }
                4..=5 => {
                    let t = rng.below(tasks as u64) as u8;
                    let d = rng.below(tasks as u64) as u8;
                    let ops = vec![
                        Intent::Create { t },
                        Intent::Key { t, key: "status".into(), val: Some(rng.pick(&["pending", "completed", "deleted"]).to_string()), ts: gen_ts(&mut rng, &mut g) },
                        Intent::Key { t, key: format!("dep_{}", task_uuid(d)), val: if rng.chance(2, 3) { Some(String::new()) } else { None }, ts: gen_ts(&mut rng, &mut g) },
                    ];
                    sc.push(Action::Commit { ops });
                }
                _ => {
                    at = match clock_policy {
                        0 => at + rng.range(1, 3 * DAY),
                        1 => at - rng.range(1, 3 * DAY),
                        2 => at,
                        _ => rng.range(-4000, 4000) * DAY,
                    };
                    let k = 1 + rng.usize_below(8);
                    let mut muts = Vec::new();
                    for _ in 0..k {
                        let rel = |rng: &mut Rng| at + rng.range(-3, 3) * DAY + rng.range(-2, 2);
                        muts.push(match rng.below(24) {
                            0..=3 => Mut::SetStatus(rng.below(4) as u8),
                            4 => Mut::SetDescription(format!("d{}", rng.below(100))),
                            5 => Mut::SetPriority(rng.pick(&["H", "M", "L", ""]).to_string()),
                            6 => Mut::SetEntry(if rng.chance(1, 5) { None } else { Some(rel(&mut rng)) }),
                            7..=8 => Mut::SetWait(if rng.chance(1, 4) { None } else { Some(rel(&mut rng)) }),
                            9 => Mut::SetDue(if rng.chance(1, 4) { None } else { Some(rel(&mut rng)) }),
                            10..=11 => Mut::SetModified(rel(&mut rng)),
                            12 => Mut::Start,
                            13 => Mut::Stop,
                            14 => Mut::Done,
                            15..=16 => Mut::AddTag(rng.pick(TAGS).to_string()),
                            17 => Mut::RemoveTag(rng.pick(TAGS).to_string()),
                            18 => Mut::AddAnnotation(rel(&mut rng), format!("note{}", rng.below(100))),
                            19 => Mut::RemoveAnnotation(rel(&mut rng)),
                            20 => Mut::SetUda(rng.pick(UDAS).to_string(), format!("u{}", rng.below(100))),
                            21 => Mut::RemoveUda(rng.pick(UDAS).to_string()),
                            22 => {
                                if rng.chance(2, 3) {
                                    Mut::AddDep(rng.below(tasks as u64) as u8)
                                } else {
                                    Mut::RemoveDep(rng.below(tasks as u64) as u8)
                                }
                            }
                            _ => Mut::SetValue(rng.pick(&["modified", "end", "custom", "status", "start"]).to_string(), if rng.chance(1, 3) { None } else { Some(format!("{}", crate::interpose::EPOCH0 + rel(&mut rng))) }),
                        });
                    }
                    sc.push(Action::Edit { t: rng.below(tasks as u64) as u8, at, muts });
                }
            }
        }
        scripts.push(sc);
    }
    let sc = Scenario {
        check: "C19".into(),
        seed: s,
        nodes,
        scripts,
        sched_seed: rng.next_u64(),
        atomic_sync: true,
        bias: 0,
        faults: vec![],
        urgency_mode: 0,
        srv_seed: rng.next_u64(),
        rounds: vec![],
        under_test: None,
        no_final: false,
        style: 0,
        late: 0,
        sqlite: false,
        ts_unit_ms: 0,
        kill_budget: 0,
        sweep_max: 0,
        backend: 0,
    };
    serde_json::to_value(sc).unwrap()
}

// ---- C06: SQLite store is crash-atomic and durable -----------------------------------------------

fn describe_store(s: &StoreState) -> String {
    match &s.unreadable {
        Some(e) => format!("UNREADABLE: {e}"),
        None => format!("tasks {} base {} unsynced {} ws {:?}", model::fmt_taskset(&s.tasks), model::short(&s.base_version), s.unsynced.len(), fmt_ws(&s.working_set)),
    }
}

pub fn run_c06(scv: &Value, want_log: bool) -> RunResult {
    let sc = match parse_scenario(scv) {
        Ok(s) => s,
        Err(r) => return r,
    };
    exec::install(Ctx::new(sc.nodes));
    let w = new_world(&sc, want_log);
    run_scripted(&w, &sc.faults, None);
    let mut evals = 0u64;
    let Some((v, action)) = sc.under_test.clone() else { return finish(&w, 1, &[]) };
    if has_violations(&w) || v >= sc.nodes {
        return finish(&w, 1, &[]);
    }
    // uninterrupted run: enumerate the storage calls (and server requests) of the action
    let dry = fork(&w);
    set_single_script(&dry, v, Some(action.clone()), 50);
    exec::with_ctx(|c| {
        c.record_points = true;
        c.point_log.clear();
    });
    run_scripted(&dry, &[], Some(&[v]));
    let points: Vec<(u32, &'static str)> = exec::with_ctx(|c| {
        c.record_points = false;
        let p = c.point_log.iter().filter(|x| x.0 == v && x.1 == 0).map(|x| (x.2, x.3)).collect();
        c.point_log.clear();
        p
    })
    .unwrap();
    evals += 1;
    if has_violations(&dry) {
        absorb(&w, &dry, "uninterrupted");
        return finish(&w, evals, &[]);
    }
    // states[j] = what a freshly opened handle must see once exactly j commits of the action have returned
    let mut states: Vec<std::sync::Arc<StoreState>> = vec![simstorage::read_store(&w.borrow().stores[v])];
    let commit_points: Vec<u32> = points.iter().filter(|p| p.1 == "st.commit").map(|p| p.0).collect();
    for (j, ord) in commit_points.iter().enumerate() {
        if j + 1 == commit_points.len() {
            states.push(simstorage::read_store(&dry.borrow().stores[v]));
        } else {
            // stop right after this commit has returned
            let c = fork(&w);
            set_single_script(&c, v, Some(action.clone()), 50);
            run_scripted(&c, &[(v, 0, *ord, Decision::FailAfter)], Some(&[v]));
            evals += 1;
            states.push(simstorage::read_store(&c.borrow().stores[v]));
        }
    }
    if commit_points.len() >= 2 {
        w.borrow_mut().probe("c06.multi_commit_action");
    }
    // "either the complete before-state or the complete after-state of that action": a commit, a
    // rebuild and an expiry are one transaction; a sync and an undo are one transaction followed by
    // the working-set rebuild in a second (docs/src/taskdb.md), so between the two the store holds
    // the after-state's tasks, base version and operations with the before-state's working set.
    // Any other state a transaction boundary of the action exposes is a partial result.
    {
        let two_step = matches!(action, Action::Sync { .. } | Action::Undo);
        let (first, last) = (states[0].clone(), states[states.len() - 1].clone());
        for (j, s) in states.iter().enumerate() {
            let hybrid = two_step && s.tasks == last.tasks && s.base_version == last.base_version && s.unsynced == last.unsynced && s.working_set == first.working_set;
            if !(same_store(s, &first) || same_store(s, &last) || hybrid) {
                w.borrow_mut().violation(
                    "crash.atomic",
                    "intermediate-commit",
                    format!(
                        "node {v}: after {j} of the action's {} storage commits a fresh handle sees neither the before-state nor the after-state of the action{}\n  before: {}\n  found:  {}\n  after:  {}",
                        commit_points.len(),
                        if two_step { " (nor the after-state awaiting its working-set rebuild)" } else { "" },
                        describe_store(&first),
                        describe_store(s),
                        describe_store(&last)
                    ),
                );
                return finish(&w, evals, &[]);
            }
        }
    }
    w.borrow_mut().probe("sweep.actions");
    'sweep: for (ord, label) in &points {
        if *label == "act" {
            continue;
        }
        let done = commit_points.iter().filter(|c| **c < *ord).count();
        for kind in [Decision::FailBefore, Decision::Crash] {
            let c = fork(&w);
            set_single_script(&c, v, Some(action.clone()), 50);
            run_scripted(&c, &[(v, 0, *ord, kind)], Some(&[v]));
            evals += 1;
            w.borrow_mut().probe("sweep.points");
            let tag = format!("{label}/{}", kind.name());
            // drop everything, reopen the directory with a fresh handle
            let st = simstorage::read_store(&c.borrow().stores[v]);
            let exp = &states[done];
            // invariant violations etc. reported by the run itself are absorbed below
            if st.unreadable.is_some() {
                c.borrow_mut().violation("crash.reopen", "unreadable", format!("node {v}: after an interruption at point #{ord} ({label}) the store cannot be reopened: {}", describe_store(&st)));
            } else if !same_store(&st, exp) {
                let other = states.iter().position(|s| same_store(s, &st));
                c.borrow_mut().violation(
                    "crash.atomic",
                    if other.is_some() { "wrong-boundary" } else { "partial" },
                    format!(
                        "node {v}: interruption at point #{ord} ({label}) with {done} of {} commits returned: a fresh handle sees a state that is {}\n  expected: {}\n  found:    {}",
                        commit_points.len(),
                        match other {
                            Some(k) => format!("the state after {k} commits"),
                            None => "none of the action's transaction boundaries".to_string(),
                        },
                        describe_store(exp),
                        describe_store(&st)
                    ),
                );
            }
            let bad = has_violations(&c);
            absorb(&w, &c, &tag);
            if bad {
                break 'sweep;
            }
        }
    }
    if !has_violations(&w) && sc.kill_budget > 0 {
        let mut krng = Rng::new(mix(sc.seed, "kill", 0));
        evals += kill_legs(&w, v, &action, &points, &commit_points, &states, sc.kill_budget as usize, &mut krng);
    }
    finish(&w, evals, &["sweep.points"])
}

// ---- victim processes: the same action, really SIGKILLed ------------------------------------------

#[derive(Serialize, Deserialize)]
pub struct VictimSpec {
    pub sc: Scenario,
    pub node: usize,
    pub action: Action,
    pub dir: String,
    pub now_ns: i64,
    /// (id, parent, bytes as text, origin)
    pub versions: Vec<(Uuid, Uuid, String, usize)>,
    pub latest: Uuid,
    pub snapshot: Option<(Uuid, Vec<u8>)>,
    pub discarded_before: usize,
    pub srv_rng: [u64; 4],
    /// kill on arrival at this point ordinal of the action (u32::MAX: right after the action returned)
    pub kill_point: Option<u32>,
    /// kill immediately before the k-th write-class system call
    pub kill_write: Option<i64>,
}

fn victim_spec(w: &W, v: usize, action: &Action, dir: &std::path::Path) -> VictimSpec {
    let wb = w.borrow();
    let sw = wb.server.borrow();
    VictimSpec {
        sc: wb.sc.clone(),
        node: v,
        action: action.clone(),
        dir: dir.to_string_lossy().to_string(),
        now_ns: wb.now_ns,
        versions: sw.chain.versions.iter().map(|x| (x.id, x.parent, String::from_utf8_lossy(&x.bytes).to_string(), x.origin)).collect(),
        latest: sw.chain.latest,
        snapshot: sw.chain.snapshot.clone(),
        discarded_before: sw.chain.discarded_before,
        srv_rng: sw.rng.state(),
        kill_point: None,
        kill_write: None,
    }
}

/// `tcsim victim <spec.json>`: perform one action on a SQLite directory; die where told.
/// Prints "C" after every commit that returned, "W <n>" (write-class syscalls) and "DONE" at the end.
pub fn victim_main(path: &str) -> i32 {
    let spec: VictimSpec = match std::fs::read_to_string(path).ok().and_then(|t| serde_json::from_str(&t).ok()) {
        Some(s) => s,
        None => return 2,
    };
    crate::interpose::activate(mix(spec.sc.seed, "victim", 0), EPOCH0);
    let mut ctx = Ctx::new(spec.sc.nodes);
    ctx.report_commits = true;
    if let Some(k) = spec.kill_point {
        if k != u32::MAX {
            ctx.kill_at = Some((spec.node, 0, k));
        }
    }
    exec::install(ctx);
    let mut sc = spec.sc.clone();
    sc.sqlite = false;
    let w = new_world(&sc, false);
    {
        let mut wb = w.borrow_mut();
        wb.now_ns = spec.now_ns;
        wb.stores[spec.node] = StoreRef::Sqlite(std::path::PathBuf::from(&spec.dir));
        let mut sw = wb.server.borrow_mut();
        for (id, parent, bytes, origin) in &spec.versions {
            let b = bytes.clone().into_bytes();
            let ops = model::decode_version(&b, false).ok();
            sw.chain.versions.push(model::VersionRec { id: *id, parent: *parent, bytes: b, origin: *origin, ops });
        }
        sw.chain.latest = spec.latest;
        sw.chain.snapshot = spec.snapshot.clone();
        sw.chain.discarded_before = spec.discarded_before;
        sw.rng = Rng::from_state(spec.srv_rng);
    }
    interpose::set_now_ns(spec.now_ns);
    set_single_script(&w, spec.node, Some(spec.action.clone()), 50);
    crate::interpose::WRITE_COUNT.store(0, std::sync::atomic::Ordering::SeqCst);
    if let Some(k) = spec.kill_write {
        crate::interpose::KILL_AT_WRITE.store(k, std::sync::atomic::Ordering::SeqCst);
    }
    crate::interpose::COUNT_WRITES.store(true, std::sync::atomic::Ordering::SeqCst);
    run_scripted(&w, &[], Some(&[spec.node]));
    crate::interpose::COUNT_WRITES.store(false, std::sync::atomic::Ordering::SeqCst);
    if spec.kill_point == Some(u32::MAX) {
        exec::kill_self();
    }
    println!("W {}", crate::interpose::WRITE_COUNT.load(std::sync::atomic::Ordering::SeqCst));
    println!("DONE");
    0
}

struct VictimOutcome {
    commits: usize,
    writes: Option<i64>,
    done: bool,
    killed: bool,
}

fn run_victim(spec: &VictimSpec, file: &std::path::Path) -> Option<VictimOutcome> {
    std::fs::write(file, serde_json::to_string(spec).ok()?).ok()?;
    let exe = std::env::current_exe().ok()?;
    let out = std::process::Command::new(exe).arg("victim").arg(file).stdin(std::process::Stdio::null()).stderr(std::process::Stdio::null()).output().ok()?;
    let text = String::from_utf8_lossy(&out.stdout);
    use std::os::unix::process::ExitStatusExt;
    Some(VictimOutcome {
        commits: text.lines().filter(|l| *l == "C").count(),
        writes: text.lines().find_map(|l| l.strip_prefix("W ").and_then(|x| x.parse().ok())),
        done: text.lines().any(|l| l == "DONE"),
        killed: out.status.signal() == Some(libc::SIGKILL),
    })
}

/// Kill legs of C06: the action runs in a victim process that is SIGKILLed at storage-call
/// indices and at write-class system-call indices (inside SQLite's commit); afterwards the
/// directory is opened by a fresh handle in this process.
fn kill_legs(w: &W, v: usize, action: &Action, points: &[(u32, &'static str)], commit_points: &[u32], states: &[std::sync::Arc<StoreState>], budget: usize, rng: &mut Rng) -> u64 {
    let mut evals = 0u64;
    let root = match &w.borrow().root {
        Some(r) => r.0.clone(),
        None => return 0,
    };
    let src = match &w.borrow().stores[v] {
        StoreRef::Sqlite(d) => d.clone(),
        _ => return 0,
    };
    let mut k = 0u64;
    let mut fresh = |k: &mut u64| -> std::path::PathBuf {
        *k += 1;
        let d = root.join(format!("victim{k}"));
        let _ = std::fs::remove_dir_all(&d);
        simstorage::copy_dir(&src, &d);
        d
    };
    let file = root.join("victim.json");
    // uninterrupted victim: counts the write-class system calls, and must agree with the in-process run
    let d0 = fresh(&mut k);
    let spec = victim_spec(w, v, action, &d0);
    let Some(base) = run_victim(&spec, &file) else {
        w.borrow_mut().violation("harness", "victim-spawn", "cannot run the victim process".into());
        return evals;
    };
    evals += 1;
    let st = simstorage::read_store(&StoreRef::Sqlite(d0.clone()));
    if !base.done || !same_store(&st, states.last().unwrap()) {
        w.borrow_mut().violation("harness", "victim-mismatch", format!("uninterrupted victim run differs from the in-process run: done={} state {}", base.done, describe_store(&st)));
        return evals;
    }
    let total_writes = base.writes.unwrap_or(0);
    w.borrow_mut().probe("kill.victims");
    let check = |w: &W, st: &StoreState, lo: usize, hi: usize, what: String| {
        let ok = (lo..=hi.min(states.len() - 1)).any(|j| same_store(st, &states[j]));
        if st.unreadable.is_some() {
            w.borrow_mut().violation("crash.reopen", "unreadable@kill", format!("{what}: the store cannot be reopened: {}", describe_store(st)));
        } else if !ok {
            let other = states.iter().position(|s| same_store(s, st));
            w.borrow_mut().violation(
                "crash.atomic",
                if other.is_some() { "wrong-boundary@kill" } else { "partial@kill" },
                format!("{what}: a fresh handle sees {}; with {lo} commits returned it must see the state after {lo}{} commits\n  expected: {}\n  found:    {}", match other { Some(j) => format!("the state after {j} commits"), None => "a state that is none of the action's transaction boundaries".into() }, if hi > lo { format!(" or {hi}") } else { String::new() }, describe_store(&states[lo.min(states.len() - 1)]), describe_store(st)),
            );
        }
    };
    // kills at storage-call granularity (incl. right after the action returned)
    let mut cand: Vec<u32> = points.iter().filter(|p| p.1 != "act").map(|p| p.0).collect();
    cand.push(u32::MAX);
    rng.shuffle(&mut cand);
    for ord in cand.into_iter().take(budget) {
        let d = fresh(&mut k);
        let mut spec = victim_spec(w, v, action, &d);
        spec.kill_point = Some(ord);
        let Some(o) = run_victim(&spec, &file) else { continue };
        evals += 1;
        if !o.killed {
            continue;
        }
        w.borrow_mut().probe("kill.at_storage_call");
        let done = if ord == u32::MAX { commit_points.len() } else { commit_points.iter().filter(|c| **c < ord).count() };
        let st = simstorage::read_store(&StoreRef::Sqlite(d));
        check(w, &st, done, done, format!("node {v}: process killed at storage call #{ord}"));
        if has_violations(w) {
            return evals;
        }
    }
    // kills at write-syscall granularity: reaches instants inside SQLite's commit
    let mut cand: Vec<i64> = (1..=total_writes).collect();
    rng.shuffle(&mut cand);
    for kw in cand.into_iter().take(budget * 2) {
        let d = fresh(&mut k);
        let mut spec = victim_spec(w, v, action, &d);
        spec.kill_write = Some(kw);
        let Some(o) = run_victim(&spec, &file) else { continue };
        evals += 1;
        if !o.killed {
            continue;
        }
        w.borrow_mut().probe("kill.at_write_syscall");
        let st = simstorage::read_store(&StoreRef::Sqlite(d));
        // `commits` had returned; the one in flight may or may not have become durable
        check(w, &st, o.commits, o.commits + 1, format!("node {v}: process killed before write-class system call #{kw} of {total_writes} ({} commits had returned)", o.commits));
        if has_violations(w) {
            return evals;
        }
    }
    evals
}

pub fn gen_c06(seed: u64, i: u64, thorough: bool) -> Value {
    let s = mix(seed, "C06", i);
    let mut rng = Rng::new(s);
    let nodes = *rng.pick(&[1usize, 2, 2]);
    let mut g = GenCfg { ghosts: false, tasks: 2 + rng.below(3) as u8, props: 1 + rng.below(2) as u8, ts_policy: rng.below(4) as u8, ts_counter: 0 };
    let mut scripts = Vec::new();
    for _ in 0..nodes {
        let len = 1 + rng.usize_below(6);
        let mut sc = Vec::new();
        for _ in 0..len {
            match rng.below(10) {
                0..=2 => sc.push(Action::Sync { avoid: rng.chance(1, 2) }),
                3 => sc.push(Action::Rebuild { renumber: rng.chance(1, 2) }),
                4 => sc.push(Action::Undo),
                _ => {
                    let mut ops = gen_status_intents(&mut rng, &mut g, 4);
                    if rng.chance(1, 2) {
                        ops.insert(0, Intent::UndoPoint);
                    }
                    sc.push(Action::Commit { ops })
                }
            }
        }
        scripts.push(sc);
    }
    let v = rng.usize_below(nodes);
    let under = match rng.below(10) {
        0..=2 => Action::Commit { ops: gen_status_intents(&mut rng, &mut g, 5) },
        3..=4 => Action::Undo,
        5 => Action::Rebuild { renumber: true },
        6 => Action::Rebuild { renumber: false },
        7..=8 => Action::Sync { avoid: rng.chance(1, 2) },
        _ => Action::Expire { at: 400 * DAY },
    };
    let fresh_join = nodes >= 2 && rng.chance(1, 6);
    let under = if fresh_join { Action::Sync { avoid: rng.chance(1, 2) } } else { under };
    if fresh_join {
        // a replica that has never done anything joins a server that holds a snapshot
        scripts[v].clear();
        let o = (v + 1) % nodes;
        // (seeded urgency: the snapshot is usually not of the latest version)
        for _ in 0..2 + rng.usize_below(3) {
            scripts[o].push(Action::Commit { ops: gen_status_intents(&mut rng, &mut g, 4) });
            scripts[o].push(Action::Sync { avoid: false });
        }
    }
    if matches!(under, Action::Expire { .. }) {
        // give expiration something to purge
        let t = rng.below(g.tasks as u64) as u8;
        scripts[v].push(Action::Commit {
            ops: vec![
                Intent::Create { t },
                Intent::Key { t, key: "status".into(), val: Some("deleted".into()), ts: 0 },
                Intent::Key { t, key: "modified".into(), val: Some(crate::interpose::EPOCH0.to_string()), ts: 0 },
            ],
        });
    }
    let sc = Scenario {
        check: "C06".into(),
        seed: s,
        nodes,
        scripts,
        sched_seed: rng.next_u64(),
        atomic_sync: true,
        bias: 0,
        faults: vec![],
        urgency_mode: if fresh_join { 1 } else { *rng.pick(&[0u8, 1]) },
        srv_seed: rng.next_u64(),
        rounds: vec![],
        under_test: Some((v, under)),
        no_final: true,
        style: rng.below(2) as u8,
        late: 0,
        sqlite: true,
        ts_unit_ms: 0,
        kill_budget: if thorough { 6 } else if rng.chance(1, 3) { 2 } else { 0 },
        sweep_max: 0,
        backend: 0,
    };
    serde_json::to_value(sc).unwrap()
}

// ---- C03: documented winners, independent of sync order -------------------------------------

fn permutations(n: usize) -> Vec<Vec<usize>> {
    fn rec(cur: &mut Vec<usize>, used: &mut Vec<bool>, n: usize, out: &mut Vec<Vec<usize>>) {
        if cur.len() == n {
            out.push(cur.clone());
            return;
        }
        for i in 0..n {
            if !used[i] {
                used[i] = true;
                cur.push(i);
                rec(cur, used, n, out);
                cur.pop();
                used[i] = false;
            }
        }
    }
    let mut out = Vec::new();
    rec(&mut Vec::new(), &mut vec![false; n], n, &mut out);
    out
}

/// M-winner (docs/src/sync-model.md, tasks.md): expected common state after a round in which the
/// replicas concurrently committed `batches` on the common state `s0`. Returns the expected
/// state plus, per (task, property) whose winner the documentation leaves open (equal greatest
/// timestamps, different values), the set of admissible values.
fn m_winner(s0: &TaskSet, batches: &[Vec<SOp>]) -> (TaskSet, BTreeMap<(Uuid, String), Vec<Option<String>>>) {
    let mut exp = s0.clone();
    let mut open: BTreeMap<(Uuid, String), Vec<Option<String>>> = BTreeMap::new();
    let mut deleted: BTreeSet<Uuid> = BTreeSet::new();
    for b in batches {
        for op in b {
            match op {
                SOp::Create { uuid } => {
                    exp.entry(*uuid).or_default();
                }
                SOp::Delete { uuid } => {
                    deleted.insert(*uuid);
                }
                _ => {}
            }
        }
    }
    // per (task, property): the update with the greatest timestamp wins
    let mut cands: BTreeMap<(Uuid, String), Vec<((i64, u32), Option<String>)>> = BTreeMap::new();
    for b in batches {
        for op in b {
            if let SOp::Update { uuid, property, value, ts } = op {
                cands.entry((*uuid, property.clone())).or_default().push((ts_key(ts), value.clone()));
            }
        }
    }
    for ((u, p), c) in cands {
        let best = c.iter().map(|x| x.0).max().unwrap();
        let mut winners: Vec<Option<String>> = c.iter().filter(|x| x.0 == best).map(|x| x.1.clone()).collect();
        winners.sort();
        winners.dedup();
        if let Some(t) = exp.get_mut(&u) {
            match &winners[0] {
                Some(v) => {
                    t.insert(p.clone(), v.clone());
                }
                None => {
                    t.remove(&p);
                }
            }
        }
        if winners.len() > 1 {
            open.insert((u, p), winners);
        }
    }
    for u in deleted {
        exp.remove(&u);
    }
    (exp, open)
}

/// None if `got` is admissible; otherwise the (task, property) at which it is not (property "" = task set).
fn winner_mismatch(got: &TaskSet, exp: &TaskSet, open: &BTreeMap<(Uuid, String), Vec<Option<String>>>) -> Option<(Uuid, String)> {
    if got.keys().collect::<Vec<_>>() != exp.keys().collect::<Vec<_>>() {
        let u = got.keys().chain(exp.keys()).find(|u| got.contains_key(u) != exp.contains_key(u)).copied().unwrap_or_default();
        return Some((u, String::new()));
    }
    for (u, ep) in exp {
        let gp = &got[u];
        let mut keys: BTreeSet<&String> = ep.keys().collect();
        keys.extend(gp.keys());
        for k in keys {
            if let Some(adm) = open.get(&(*u, k.clone())) {
                if !adm.contains(&gp.get(k).cloned()) {
                    return Some((*u, k.clone()));
                }
            } else if gp.get(k) != ep.get(k) {
                return Some((*u, k.clone()));
            }
        }
    }
    None
}

pub fn run_c03(scv: &Value, want_log: bool) -> RunResult {
    let sc = match parse_scenario(scv) {
        Ok(s) => s,
        Err(r) => return r,
    };
    let n = sc.nodes;
    exec::install(Ctx::new(n));
    let mut w = new_world(&sc, want_log);
    let perms = permutations(n);
    let mut evals = 0u64;
    'rounds: for (r, batches) in sc.rounds.iter().enumerate() {
        // all replicas are quiescent on a common state
        let s0 = w.borrow().server.borrow().chain.state_latest().unwrap_or_default();
        // each replica commits its batch
        {
            let mut wb = w.borrow_mut();
            wb.sc.scripts = batches.iter().map(|b| vec![Action::Commit { ops: b.clone() }]).collect();
            wb.sc.atomic_sync = true;
            wb.pc = vec![0; n];
            wb.epoch = r + 1;
        }
        let led0: Vec<usize> = w.borrow().ledger.iter().map(|l| l.len()).collect();
        run_scripted(&w, &[], None);
        if has_violations(&w) {
            break;
        }
        let committed: Vec<Vec<SOp>> = (0..n)
            .map(|i| w.borrow().ledger[i][led0[i]..].iter().filter(|e| e.status == LStatus::Committed).map(|e| e.sop.clone()).collect())
            .collect();
        let (exp, open) = m_winner(&s0, &committed);
        if !open.is_empty() {
            w.borrow_mut().probe("c03.tie_round");
        }
        if committed.iter().filter(|c| !c.is_empty()).count() >= 2 {
            w.borrow_mut().probe("c03.concurrent_round");
        }
        // execute the synchronisation under every order of first syncs
        let mut results: Vec<(Vec<usize>, TaskSet, W)> = Vec::new();
        for (pi, perm) in perms.iter().enumerate() {
            evals += 1;
            let c = fork(&w);
            // first syncs, one replica after the other in this order
            for &i in perm {
                {
                    let mut cb = c.borrow_mut();
                    cb.sc.scripts = (0..n).map(|j| if j == i { vec![Action::Sync { avoid: true }] } else { vec![] }).collect();
                    cb.pc = vec![0; n];
                    cb.sc.atomic_sync = true;
                }
                run_scripted(&c, &[], None);
            }
            // catch-up syncs, all in flight together, interleaved per request by the seeded scheduler
            {
                let mut cb = c.borrow_mut();
                cb.sc.scripts = (0..n).map(|_| vec![Action::Sync { avoid: true }, Action::Sync { avoid: true }]).collect();
                cb.pc = vec![0; n];
                cb.sc.atomic_sync = false;
                cb.sc.sched_seed = mix(sc.sched_seed, "catchup", (r * 16 + pi) as u64);
            }
            run_scripted(&c, &[], None);
            let q = !has_violations(&c) && final_phase(&c);
            if q {
                history_oracles(&c);
            }
            let tag = format!("round{r}/order{perm:?}");
            let bad = has_violations(&c);
            absorb(&w, &c, "");
            if bad {
                let _ = tag;
                break 'rounds;
            }
            let got = c.borrow().server.borrow().chain.state_latest().unwrap_or_default();
            if let Some((mu, mp)) = winner_mismatch(&got, &exp, &open) {
                // discriminator: were there two concurrent updates of that property with the same value?
                let mut vals: Vec<&Option<String>> = Vec::new();
                for b in &committed {
                    for op in b {
                        if let SOp::Update { uuid, property, value, .. } = op {
                            if *uuid == mu && *property == mp {
                                vals.push(value);
                            }
                        }
                    }
                }
                let same_value = (0..vals.len()).any(|a| (a + 1..vals.len()).any(|b| vals[a] == vals[b]));
                w.borrow_mut().violation(
                    "winner",
                    if mp.is_empty() { "task-existence" } else if same_value { "same-value-updates" } else { "documented-rule" },
                    format!(
                        "round {r}, first-sync order {perm:?}: the converged state is not the one the documented conflict rules give\n  common state: {}\n  batches: {:?}\n  got:      {}\n  expected: {}",
                        model::fmt_taskset(&s0),
                        committed,
                        model::fmt_taskset(&got),
                        model::fmt_taskset(&exp)
                    ),
                );
                break 'rounds;
            }
            results.push((perm.clone(), got, c));
        }
        // the winner must not depend on the order
        for k in 1..results.len() {
            if results[k].1 != results[0].1 {
                let tie = !open.is_empty();
                w.borrow_mut().violation(
                    "order-dependence",
                    if tie { "tie" } else { "no-tie" },
                    format!(
                        "round {r}: the converged state depends on which replica synchronizes first\n  batches: {:?}\n  order {:?}: {}\n  order {:?}: {}",
                        committed,
                        results[0].0,
                        model::fmt_taskset(&results[0].1),
                        results[k].0,
                        model::fmt_taskset(&results[k].1)
                    ),
                );
                break 'rounds;
            }
        }
        // continue from one of the executions (chosen by the seed)
        let pick = (mix(sc.sched_seed, "continue", r as u64) % results.len() as u64) as usize;
        let (_, _, c) = results.swap_remove(pick);
        {
            // carry the accumulated observations over to the continuing world
            let (viol, probes, log, steps, sh) = {
                let wb = w.borrow();
                (wb.violations.clone(), wb.probes.clone(), wb.log.clone(), wb.steps, wb.sched_hash)
            };
            let mut cb = c.borrow_mut();
            cb.violations = viol;
            cb.probes = probes;
            cb.log = log;
            cb.steps = steps;
            cb.sched_hash = sh;
            cb.server.borrow_mut().violations.clear();
        }
        w = c;
    }
    finish(&w, evals.max(1), &["c03.concurrent_round"])
}

pub fn gen_c03(seed: u64, i: u64, _thorough: bool) -> Value {
    let s = mix(seed, "C03", i);
    let mut rng = Rng::new(s);
    let nodes = *rng.pick(&[2usize, 2, 3]);
    let tasks = 1 + rng.below(3) as u8;
    let props = 1 + rng.below(3) as u8;
    let nrounds = 1 + rng.usize_below(4);
    let mut rounds = Vec::new();
    for _ in 0..nrounds {
        let mut per = Vec::new();
        for _ in 0..nodes {
            let mut b = Vec::new();
            if rng.chance(1, 6) {
                per.push(b);
                continue;
            }
            for t in 0..tasks {
                match rng.below(12) {
                    0..=1 => {}
                    2 => b.push(Intent::Delete { t }),
                    10 => {
                        // create (if need be), perhaps touch, and delete again within the batch
                        b.push(Intent::Create { t });
                        if rng.chance(1, 2) {
                            b.push(Intent::Set { t, p: rng.below(props as u64) as u8, ts: rng.range(-3, 3), big: false });
                        }
                        b.push(Intent::Delete { t });
                    }
                    11 => {
                        // (one per task slot, so that a batch updates a property at most once)
                        if rng.chance(1, 2) && t < 2 {
                            b.push(Intent::Recreate { t: 240 + t, p: rng.below(props as u64) as u8, ts: rng.range(-3, 3) })
                        } else {
                            b.push(Intent::Ghost { del: rng.chance(1, 3), ts: rng.range(-3, 3) })
                        }
                    }
                    _ => {
                        // create (a no-op when the task exists) then updates of distinct properties
                        if rng.chance(2, 3) {
                            b.push(Intent::Create { t });
                        }
                        for p in 0..props {
                            if rng.chance(1, 2) {
                                let ts = rng.range(-3, 3);
                                match rng.below(12) {
                                    0..=1 => b.push(Intent::Remove { t, p, ts }),
                                    // a value other replicas may set (or already hold) as well
                                    2..=3 => b.push(Intent::Key { t, key: prop_name(p), val: Some(rng.pick(&["same", "other"]).to_string()), ts }),
                                    _ => b.push(Intent::Set { t, p, ts, big: false }),
                                }
                            }
                        }
                    }
                }
            }
            per.push(b);
        }
        rounds.push(per);
    }
    let sc = Scenario {
        check: "C03".into(),
        seed: s,
        nodes,
        scripts: vec![vec![]; nodes],
        sched_seed: rng.next_u64(),
        atomic_sync: true,
        bias: 0,
        faults: vec![],
        urgency_mode: 0,
        srv_seed: rng.next_u64(),
        rounds,
        under_test: None,
        no_final: false,
        style: 0,
        late: 0,
        sqlite: false,
        ts_unit_ms: *rng.pick(&[0u32, 0, 0, 250, 100, 1]),
        kill_budget: 0,
        sweep_max: 0,
        backend: 0,
    };
    serde_json::to_value(sc).unwrap()
}

pub fn shrink_c03(scv: &Value) -> Vec<Value> {
    let Ok(sc) = serde_json::from_value::<Scenario>(scv.clone()) else { return vec![] };
    let mut out: Vec<Scenario> = Vec::new();
    for r in 0..sc.rounds.len() {
        let mut c = sc.clone();
        c.rounds.remove(r);
        out.push(c);
    }
    if sc.nodes > 2 {
        let mut c = sc.clone();
        c.nodes -= 1;
        c.scripts.pop();
        for r in c.rounds.iter_mut() {
            r.pop();
        }
        out.push(c);
    }
    for r in 0..sc.rounds.len() {
        for n in 0..sc.nodes {
            if !sc.rounds[r][n].is_empty() {
                let mut c = sc.clone();
                c.rounds[r][n].clear();
                out.push(c);
            }
            for k in 0..sc.rounds[r][n].len() {
                let mut c = sc.clone();
                c.rounds[r][n].remove(k);
                out.push(c);
            }
        }
    }
    out.into_iter().map(|s| serde_json::to_value(s).unwrap()).collect()
}

fn ts_key(ts: &str) -> (i64, u32) {
    model::parse_rfc3339_utc(ts).unwrap_or((i64::MIN, 0))
}

/// Conservation / exactly-once over the recorded history (necessary conditions only, so that a
/// legitimate conflict loss can never alarm).
fn conservation(wb: &mut World) {
    let sw = wb.server.clone();
    let sw = sw.borrow();
    // all update values in the chain, with origin and position
    let mut by_value: BTreeMap<String, Vec<(usize, usize, usize)>> = BTreeMap::new();
    let mut chain_ops: Vec<(usize, SOp)> = Vec::new();
    for (vi, v) in sw.chain.versions.iter().enumerate() {
        if let Some(ops) = &v.ops {
            for (oi, op) in ops.iter().enumerate() {
                chain_ops.push((v.origin, op.clone()));
                if let SOp::Update { value: Some(val), .. } = op {
                    by_value.entry(val.clone()).or_default().push((v.origin, vi, oi));
                }
            }
        }
    }
    let mut known_values: BTreeSet<String> = BTreeSet::new();
    let ledger = wb.ledger.clone();
    for (n, l) in ledger.iter().enumerate() {
        // order of this node's surviving values in the chain must follow commit order
        let mut last_pos: Option<(usize, usize)> = None;
        for e in l {
            let SOp::Update { uuid, property, value: Some(val), ts } = &e.sop else { continue };
            if !tracked_value(val) {
                continue;
            }
            known_values.insert(val.clone());
            let occ = by_value.get(val).cloned().unwrap_or_default();
            match e.status {
                LStatus::Undone | LStatus::Failed => {
                    let occ: Vec<(usize, usize, usize)> = occ.into_iter().filter(|o| e.status == LStatus::Failed || o.1 >= e.undone_when).collect();
                    if !occ.is_empty() {
                        let what = if e.status == LStatus::Undone { "undone" } else { "never committed" };
                        wb.violation("conservation", if e.status == LStatus::Undone { "undone-sent" } else { "failed-sent" }, format!("an update of node {n} (action {}) that was {what} reached the server: {}", e.action, trunc(val)));
                    }
                }
                LStatus::Committed => {
                    if occ.len() > 1 {
                        wb.violation("conservation", "twice", format!("update {} of node {n} appears {} times in the server's versions", trunc(val), occ.len()));
                    } else if occ.len() == 1 {
                        // "a concurrent update of the same property with a later timestamp wins": this
                        // update must not follow, in the chain, a strictly later-timestamped update of
                        // another origin that the replica had not seen when it made its own (only
                        // judged when this is the replica's sole pending change to that task's
                        // property and it neither created nor deleted the task meanwhile)
                        let alone = l.iter().filter(|o| o.base_len == e.base_len && o.status == LStatus::Committed).all(|o| match &o.sop {
                            SOp::Update { uuid: u2, property: p2, value: v2, .. } => !(u2 == uuid && p2 == property) || v2.as_ref() == Some(val),
                            SOp::Create { uuid: u2 } | SOp::Delete { uuid: u2 } => u2 != uuid,
                        });
                        if alone {
                            let my_pos = (occ[0].1, occ[0].2);
                            let k = ts_key(ts);
                            for (vi, v) in sw.chain.versions.iter().enumerate() {
                                if vi < e.base_len || v.origin == n {
                                    continue;
                                }
                                if let Some(ops) = &v.ops {
                                    for (oi, op) in ops.iter().enumerate() {
                                        if let SOp::Update { uuid: u2, property: p2, value: v2, ts: t2 } = op {
                                            if u2 == uuid && p2 == property && (vi, oi) < my_pos && ts_key(t2) > k && v2.as_ref() != Some(val) {
                                                wb.violation(
                                                    "winner",
                                                    "earlier-overrode-later",
                                                    format!("update {} of node {n} (timestamp {ts}) was sent after the concurrent update {:?} (timestamp {t2}) of {} that it had not seen: the earlier-timestamped change overrides the later one", trunc(val), v2.as_ref().map(|x| trunc(x)), if v.origin == usize::MAX { "a foreign client".to_string() } else { format!("node {}", v.origin) }),
                                                );
                                            }
                                        }
                                    }
                                }
                            }
                        }
                        if occ[0].0 != n {
                            wb.violation("conservation", "origin", format!("update {} of node {n} was sent by node {}", trunc(val), occ[0].0));
                        }
                        let pos = (occ[0].1, occ[0].2);
                        if let Some(lp) = last_pos {
                            if pos < lp {
                                wb.violation("conservation", "order", format!("node {n}: update {} was sent before an update committed earlier", trunc(val)));
                            }
                        }
                        last_pos = Some(pos);
                    } else {
                        // absent: some other origin's operation must be able to defeat it
                        let k = ts_key(ts);
                        // (with injected faults a replica's own operation can come back as somebody
                        // else's: a version the server accepted while the replica never learnt of it)
                        let faulty_run = !wb.sc.faults.is_empty() || wb.sc.under_test.is_some();
                        let justified = chain_ops.iter().any(|(o, op)| {
                            (*o != n || faulty_run)
                                && match op {
                                    SOp::Delete { uuid: u } => u == uuid,
                                    SOp::Update { uuid: u, property: p, ts: t2, .. } => u == uuid && p == property && ts_key(t2) >= k,
                                    _ => false,
                                }
                        });
                        if !justified {
                            wb.violation(
                                "conservation",
                                "lost",
                                format!("update {} ({}.{} by node {n}, action {}) never reached the server and no other replica's operation can have defeated it", trunc(val), model::short(uuid), property, e.action),
                            );
                        }
                    }
                }
            }
        }
    }
    for (val, occ) in &by_value {
        if tracked_value(val) && !known_values.contains(val) && occ.iter().all(|o| o.0 != usize::MAX) {
            wb.violation("conservation", "unknown-value", format!("the server holds an update {} nobody committed", trunc(val)));
        }
    }
}

/// values generated as unique markers ("v<node>.<action>.<index>…"); only these take part in
/// the conservation oracle
fn tracked_value(v: &str) -> bool {
    let b = v.as_bytes();
    b.len() >= 4 && b[0] == b'v' && b[1].is_ascii_digit() && v.contains('.')
}

fn trunc(s: &str) -> String {
    if s.len() > 20 {
        format!("{}…", &s[..12])
    } else {
        s.to_string()
    }
}

// ---- generation --------------------------------------------------------------------------------

struct GenCfg {
    /// may the scripts contain operations on a task that exists nowhere (not in undo scenarios:
    /// undo is only specified for valid operations)
    ghosts: bool,
    tasks: u8,
    props: u8,
    ts_policy: u8,
    ts_counter: i64,
}

fn gen_ts(rng: &mut Rng, g: &mut GenCfg) -> i64 {
    g.ts_counter += 1;
    match g.ts_policy {
        0 => g.ts_counter,
        1 => rng.range(0, 1),
        2 => -g.ts_counter,
        _ => rng.range(-5, 5),
    }
}

/// a few faults at seeded (node, action, point) positions: request failures before / after their
/// effect, storage errors, and process stops (the node is dropped and restarted from its store)
fn random_faults(rng: &mut Rng, nodes: usize, max: usize) -> Vec<(usize, usize, u32, Decision)> {
    (0..1 + rng.usize_below(max))
        .map(|_| (rng.usize_below(nodes), rng.usize_below(10), 1 + rng.below(30) as u32, *rng.pick(&[Decision::FailBefore, Decision::FailAfter, Decision::Crash, Decision::Crash])))
        .collect()
}

fn gen_intents(rng: &mut Rng, g: &mut GenCfg, max: usize, allow_undo_point: bool) -> Vec<Intent> {
    let k = 1 + rng.usize_below(max);
    let mut v = Vec::new();
    for _ in 0..k {
        let t = rng.below(g.tasks as u64) as u8;
        let p = rng.below(g.props as u64) as u8;
        let x = rng.below(100);
        v.push(if x < 25 {
            Intent::Create { t }
        } else if x < 27 && g.ghosts {
            if rng.chance(1, 2) {
                Intent::Recreate { t: 240 + rng.below(2) as u8, p, ts: gen_ts(rng, g) }
            } else {
                Intent::Ghost { del: rng.chance(1, 3), ts: gen_ts(rng, g) }
            }
        } else if x < 31 {
            // an empty value (as tags and dependencies have), or one several tasks share
            Intent::Key { t, key: prop_name(p), val: Some(rng.pick(&["", "", "shared"]).to_string()), ts: gen_ts(rng, g) }
        } else if x < 70 {
            Intent::Set { t, p, ts: gen_ts(rng, g), big: false }
        } else if x < 80 {
            Intent::Remove { t, p, ts: gen_ts(rng, g) }
        } else if x < 93 || !allow_undo_point {
            Intent::Delete { t }
        } else {
            Intent::UndoPoint
        });
    }
    v
}

pub fn gen_c01(seed: u64, i: u64, thorough: bool) -> Value {
    let s = mix(seed, "C01", i);
    let mut rng = Rng::new(s);
    let big_run = rng.chance(1, if thorough { 20 } else { 50 });
    let nodes = if big_run { *rng.pick(&[2usize, 2, 3]) } else { *rng.pick(&[1usize, 2, 2, 2, 3, 3, 3, 4, 5]) };
    let mut g = GenCfg { ghosts: true, tasks: 1 + rng.below(4) as u8, props: 1 + rng.below(4) as u8, ts_policy: rng.below(4) as u8, ts_counter: 0 };
    let mut scripts = Vec::new();
    for _ in 0..nodes {
        let len = 2 + rng.usize_below(if big_run { 5 } else { 14 });
        let mut sc = Vec::new();
        for _ in 0..len {
            if rng.chance(45, 100) {
                sc.push(Action::Sync { avoid: rng.chance(1, 2) });
            } else {
                let mut ops = gen_intents(&mut rng, &mut g, 5, true);
                if big_run && rng.chance(1, 2) {
                    // make the pending changes exceed the one-megabyte batching threshold
                    let t = rng.below(g.tasks as u64) as u8;
                    let mut pre = vec![Intent::Create { t }];
                    if rng.chance(1, 3) {
                        // one operation that is over the threshold on its own
                        pre.push(Intent::SetHuge { t, p: rng.below(g.props as u64) as u8, ts: gen_ts(&mut rng, &mut g) });
                    }
                    for _ in 0..(1 + rng.below(3)) {
                        pre.push(Intent::Set { t, p: rng.below(g.props as u64) as u8, ts: gen_ts(&mut rng, &mut g), big: true });
                    }
                    if rng.chance(1, 2) {
                        pre.extend(ops);
                        ops = pre;
                    } else {
                        ops.extend(pre);
                    }
                }
                sc.push(Action::Commit { ops });
            }
        }
        scripts.push(sc);
    }
    let sc = Scenario {
        check: "C01".into(),
        seed: s,
        nodes,
        scripts,
        sched_seed: rng.next_u64(),
        atomic_sync: !rng.chance(1, 5),
        bias: 0,
        faults: vec![],
        urgency_mode: *rng.pick(&[0u8, 0, 1]),
        srv_seed: rng.next_u64(),
        rounds: vec![],
        under_test: None,
        no_final: false,
        style: 0,
        late: 0,
        sqlite: rng.chance(1, if thorough { 60 } else { 600 }),
        ts_unit_ms: *rng.pick(&[0u32, 0, 0, 250, 100, 1]),
        kill_budget: 0,
        sweep_max: 0,
        backend: 0,
    };
    serde_json::to_value(sc).unwrap()
}

pub fn gen_c02(seed: u64, i: u64, thorough: bool) -> Value {
    let s = mix(seed, "C02", i);
    let mut rng = Rng::new(s);
    let nodes = *rng.pick(&[2usize, 2, 3, 3, 3, 4]);
    let mut g = GenCfg { ghosts: true, tasks: 1 + rng.below(3) as u8, props: 1 + rng.below(3) as u8, ts_policy: rng.below(4) as u8, ts_counter: 0 };
    let mut scripts = Vec::new();
    for _ in 0..nodes {
        let len = 2 + rng.usize_below(8);
        let mut sc = Vec::new();
        for _ in 0..len {
            if rng.chance(1, 2) {
                sc.push(Action::Sync { avoid: rng.chance(1, 2) });
            } else {
                sc.push(Action::Commit { ops: gen_intents(&mut rng, &mut g, 4, false) });
            }
        }
        scripts.push(sc);
    }
    // now and then one replica's pending changes exceed the batching threshold, so that its sync
    // sends several versions while the others race it (a rejected first or middle batch)
    if rng.chance(1, if thorough { 20 } else { 50 }) {
        let n = rng.usize_below(nodes);
        let t = rng.below(g.tasks as u64) as u8;
        let mut ops = vec![Intent::Create { t }];
        for _ in 0..3 + rng.usize_below(2) {
            ops.push(Intent::Set { t, p: rng.below(g.props as u64) as u8, ts: gen_ts(&mut rng, &mut g), big: true });
        }
        ops.push(Intent::Set { t, p: rng.below(g.props as u64) as u8, ts: gen_ts(&mut rng, &mut g), big: false });
        let at = rng.usize_below(scripts[n].len() + 1);
        scripts[n].insert(at, Action::Sync { avoid: true });
        scripts[n].insert(at, Action::Commit { ops });
        for sc in scripts.iter_mut() {
            sc.truncate(6);
        }
        for (m, sc) in scripts.iter_mut().enumerate() {
            if m != n && !sc.iter().any(|a| matches!(a, Action::Sync { .. })) {
                sc.push(Action::Sync { avoid: true });
            }
        }
    }
    let sc = Scenario {
        check: "C02".into(),
        seed: s,
        nodes,
        scripts,
        sched_seed: rng.next_u64(),
        atomic_sync: false,
        bias: rng.below(3) as u8,
        faults: if rng.chance(1, 4) { random_faults(&mut rng, nodes, 4) } else { vec![] },
        urgency_mode: *rng.pick(&[0u8, 0, 1]),
        srv_seed: rng.next_u64(),
        rounds: vec![],
        under_test: None,
        no_final: false,
        style: 0,
        late: 0,
        sqlite: rng.chance(1, if thorough { 60 } else { 600 }),
        ts_unit_ms: *rng.pick(&[0u32, 0, 0, 250, 100, 1]),
        kill_budget: 0,
        sweep_max: 0,
        backend: 0,
    };
    serde_json::to_value(sc).unwrap()
}

// ---- shrinking -----------------------------------------------------------------------------------

pub fn shrink(scv: &Value) -> Vec<Value> {
    let Ok(sc) = serde_json::from_value::<Scenario>(scv.clone()) else { return vec![] };
    let mut out: Vec<Scenario> = Vec::new();
    // drop a whole node (only the last, so node indices stay meaningful)
    if sc.nodes > 1 && sc.under_test.as_ref().map(|u| u.0 < sc.nodes - 1).unwrap_or(true) {
        let mut c = sc.clone();
        c.nodes -= 1;
        c.scripts.pop();
        c.faults.retain(|f| f.0 < c.nodes);
        if c.late > 0 {
            c.late -= 1;
        }
        out.push(c);
        // or empty a node's script
        for n in 0..sc.nodes {
            if !sc.scripts[n].is_empty() {
                let mut c = sc.clone();
                c.scripts[n].clear();
                c.faults.retain(|f| f.0 != n);
                out.push(c);
            }
        }
    }
    // drop halves / single actions
    for n in 0..sc.nodes {
        let len = sc.scripts[n].len();
        if len >= 4 {
            for (lo, hi) in [(if n >= sc.nodes - sc.late { 1 } else { 0 }, len / 2), (len / 2, len)] {
                let mut c = sc.clone();
                c.scripts[n].drain(lo..hi);
                fix_faults(&mut c, n, lo, hi - lo);
                out.push(c);
            }
        }
        for a in 0..len {
            if a == 0 && n >= sc.nodes - sc.late {
                continue; // a late joiner must start with its sync
            }
            let mut c = sc.clone();
            c.scripts[n].remove(a);
            fix_faults(&mut c, n, a, 1);
            out.push(c);
        }
    }
    // drop single intents, un-big values
    for n in 0..sc.nodes {
        for a in 0..sc.scripts[n].len() {
            let list = match &sc.scripts[n][a] {
                Action::Commit { ops } => Some(ops.clone()),
                Action::StaleUndo { then } => Some(then.clone()),
                Action::Foreign { ops, .. } => Some(ops.clone()),
                _ => None,
            };
            if let Some(ops) = list {
                if ops.len() > 1 {
                    for k in 0..ops.len() {
                        let mut c = sc.clone();
                        let mut o = ops.clone();
                        o.remove(k);
                        set_ops(&mut c.scripts[n][a], o);
                        out.push(c);
                    }
                }
                for k in 0..ops.len() {
                    if let Intent::SetHuge { t, p, ts } = &ops[k] {
                        let mut c = sc.clone();
                        let mut o = ops.clone();
                        o[k] = Intent::Set { t: *t, p: *p, ts: *ts, big: false };
                        set_ops(&mut c.scripts[n][a], o);
                        out.push(c);
                    }
                    if let Intent::Set { t, p, ts, big: true } = &ops[k] {
                        let mut c = sc.clone();
                        let mut o = ops.clone();
                        o[k] = Intent::Set { t: *t, p: *p, ts: *ts, big: false };
                        set_ops(&mut c.scripts[n][a], o);
                        out.push(c);
                    }
                }
            }
        }
    }
    // drop faults
    for k in 0..sc.faults.len() {
        let mut c = sc.clone();
        c.faults.remove(k);
        out.push(c);
    }
    // simpler scheduling
    if !sc.atomic_sync {
        let mut c = sc.clone();
        c.atomic_sync = true;
        out.push(c);
    }
    if sc.bias != 0 {
        let mut c = sc.clone();
        c.bias = 0;
        out.push(c);
    }
    if sc.urgency_mode != 0 {
        let mut c = sc.clone();
        c.urgency_mode = 0;
        out.push(c);
    }
    if sc.style != 0 {
        let mut c = sc.clone();
        c.style = 0;
        out.push(c);
    }
    if sc.late > 0 {
        let mut c = sc.clone();
        c.late = 0;
        out.push(c);
    }
    for n in 0..sc.nodes {
        for a in 0..sc.scripts[n].len() {
            if let Action::Edit { t, at, muts } = &sc.scripts[n][a] {
                for k in 0..muts.len() {
                    let mut c = sc.clone();
                    let mut o = muts.clone();
                    o.remove(k);
                    c.scripts[n][a] = Action::Edit { t: *t, at: *at, muts: o };
                    out.push(c);
                }
            }
        }
    }
    if let Some((v, Action::CommitRaw { ops })) = &sc.under_test {
        for k in 0..ops.len() {
            let mut c = sc.clone();
            let mut o = ops.clone();
            o.remove(k);
            c.under_test = Some((*v, Action::CommitRaw { ops: o }));
            out.push(c);
        }
    }
    for n in 0..sc.nodes {
        for a in 0..sc.scripts[n].len() {
            if let Action::CommitRaw { ops } = &sc.scripts[n][a] {
                for k in 0..ops.len() {
                    let mut c = sc.clone();
                    let mut o = ops.clone();
                    o.remove(k);
                    c.scripts[n][a] = Action::CommitRaw { ops: o };
                    out.push(c);
                }
            }
        }
    }
    out.into_iter().map(|s| serde_json::to_value(s).unwrap()).collect()
}

fn set_ops(a: &mut Action, o: Vec<Intent>) {
    match a {
        Action::Commit { ops } => *ops = o,
        Action::StaleUndo { then } => *then = o,
        Action::Foreign { ops, .. } => *ops = o,
        _ => {}
    }
}

fn fix_faults(c: &mut Scenario, n: usize, at: usize, removed: usize) {
    c.faults.retain(|f| !(f.0 == n && f.1 >= at && f.1 < at + removed));
    for f in c.faults.iter_mut() {
        if f.0 == n && f.1 >= at + removed {
            f.1 -= removed;
        }
    }
}

const REAL_A: &[&str] = &[
    "taskchampion::Replica",
    "taskdb::{sync,apply,undo,snapshot,working_set}",
    "server::op (SyncOp::transform)",
    "TaskData",
    "storage::inmemory::InMemoryStorage",
];
const STUB_A: &[&str] = &["server = SimServer (M-chain reference model behind the public Server trait)"];

pub fn checks() -> Vec<CheckDef> {
    vec![
        CheckDef {
            id: "C06",
            level: "fault_enumeration",
            runs_quick: 1_200,
            runs_thorough: 120_000,
            rule: "replicas over the real SqliteStorage (one directory each on tmpfs); after a seeded history one action (commit, undo, rebuild with/without renumbering, sync, expire) is run once fault-free to enumerate its storage calls and to record, through freshly opened handles, the state after each of its transaction commits; it is then re-executed from a copy of the directory once per storage-call index with {error returned, caller dropped (transaction abandoned)}, the handle is closed and a fresh SqliteStorage opened: it must see exactly the state after the commits that had returned before the interruption (never an intermediate state, never less than a returned commit). evaluations = executions. Non-trivial: at least one point swept; distinct = distinct trace hash.",
            gen: gen_c06,
            run: run_c06,
            shrink,
            real: &["taskchampion::Replica", "taskdb::*", "storage::sqlite (SqliteStorage, inner, schema)", "storage::send_wrapper (actor thread)", "rusqlite + bundled SQLite on tmpfs"],
            stub: STUB_A,
            assumptions: &["in-process interruptions (error / dropped caller); process kills at storage-call and write-syscall granularity are exercised by the kill legs (see probes kill.*)", "crash = process stop with completed syscalls surviving; power loss is out of scope"],
        },
        CheckDef {
            id: "C15",
            level: "exploration",
            runs_quick: 300_000,
            runs_thorough: 12_000_000,
            rule: "seeded scripts on 1-3 replicas: commits that create tasks and change status (pending, completed, deleted, recurring, unknown, removed), outright deletes, syncs that bring other replicas' status changes and deletions, undo, and explicit rebuilds with and without renumbering in any sequence (so that prior working sets have gaps and entries whose task was completed, deleted or removed by sync). After every rebuild (explicit, or implied by sync/undo): index 0 empty, members exactly the pending/recurring tasks each once, without renumbering survivors keep their number and newcomers follow all numbers in use, with renumbering 1..n without gaps in previous relative order; after every commit: existing numbers undisturbed, tasks that became pending appended. Non-trivial: at least one rebuild was checked; distinct = distinct trace hash.",
            gen: gen_c15,
            run,
            shrink,
            real: REAL_A,
            stub: STUB_A,
            assumptions: &["in-memory storage in this check; SqliteStorage working-set behaviour is compared call by call in C16"],
        },
        CheckDef {
            id: "C19",
            level: "exploration",
            runs_quick: 400_000,
            runs_thorough: 8_000_000,
            rule: "seeded editing sessions through the high-level Task API (status, description, priority, entry/wait/due/modified, start/stop/done, tags incl. invalid and synthetic names, annotations, user-defined attributes incl. reserved names, dependencies, raw set_value) under a simulated clock that runs forwards, backwards, stands still or jumps years between sessions, interleaved with syncs and other replicas' changes. After each session: the stored task equals the object the caller held and an independent task model (M-task); every recorded old value is the value the property had; tags, annotations, dependencies, UDAs, synthetic tags and dependency_map(true) read back equal what the model derives from the stored data. Non-trivial: at least one session committed; distinct = distinct trace hash.",
            gen: gen_c19,
            run,
            shrink,
            real: REAL_A,
            stub: STUB_A,
            assumptions: &["the contribution of simulation here is the clock seam; the rest is a model check of mutator sequences", "the dependency map is compared after a forced recomputation (its caching is documented)"],
        },
        CheckDef {
            id: "C20",
            level: "exploration",
            runs_quick: 500_000,
            runs_thorough: 12_000_000,
            rule: "task sets over every status and modification time (exactly 180 days, one second either side, future, missing, non-numeric, signed, out of range), replicas calling expire_tasks with their clock pinned to chosen instants (jumps of days to months), concurrent edits of the same tasks on other replicas, all sync orders. Oracle: exactly the tasks with status deleted and a readable modification time more than 180 days before the caller's clock disappear, recorded as one Delete each; after quiescence no purged task exists on any replica or in the chain replay. Non-trivial: at least one task was purged; distinct = distinct trace hash.",
            gen: gen_c20,
            run,
            shrink,
            real: REAL_A,
            stub: STUB_A,
            assumptions: &["scenarios never re-create a task after the initial creation (a later Create would legitimately bring a purged id back)"],
        },
        CheckDef {
            id: "C12",
            level: "exploration",
            runs_quick: 50_000,
            runs_thorough: 8_000_000,
            rule: "seeded histories on 1-3 replicas plus 0-2 late joiners; the reference server answers add_version with a seeded urgency (random / always high / always low) and each sync draws avoid_snapshots; arbitrary Unicode property names and values in half the runs, >1MB multi-version syncs in a fraction, thousands of tasks in the thorough tier. At the server every uploaded snapshot is inflated and parsed independently and must equal the replay of the chain up to its version, must follow an accepted version of that replica whose urgency met the replica's threshold; after the early replicas are quiescent the server discards the versions covered by its snapshot and new empty replicas join and must converge to the full replay; a replica holding data must never request a snapshot. Non-trivial: at least one snapshot was uploaded; distinct = distinct trace hash.",
            gen: gen_c12,
            run,
            shrink,
            real: REAL_A,
            stub: STUB_A,
            assumptions: &["the server only discards versions once every existing replica has passed its snapshot (otherwise out-of-date replicas legitimately fail, docs/src/snapshots.md)", "late joiners start with a sync"],
        },
        CheckDef {
            id: "C14",
            level: "exploration",
            runs_quick: 400_000,
            runs_thorough: 8_000_000,
            rule: "send side: every version any replica sends in any run is walked by a strict decoder (serde_json::Value only): UTF-8 JSON {\"operations\":[...]}, each element exactly one of Create{uuid} / Delete{uuid} / Update{uuid,property,value|null,timestamp RFC3339 UTC} with no further key; the relative order of a replica's surviving updates must follow commit order (unique values); undone and never-committed operations must not appear. Receive side: a foreign client appends versions rendered from the documented grammar with shuffled field order, arbitrary whitespace, \\u escapes and 0/3/6/9-digit second fractions; all replicas must converge to the reference replay. Non-trivial: at least one foreign version was appended; distinct = distinct trace hash.",
            gen: gen_c14,
            run,
            shrink,
            real: REAL_A,
            stub: STUB_A,
            assumptions: &["the version document is the {\"operations\":[…]} wrapper every released implementation emits (the docs' bare-array examples are illustrative; no released replica parses them)"],
        },
        CheckDef {
            id: "C07",
            level: "exploration",
            runs_quick: 300_000,
            runs_thorough: 12_000_000,
            rule: "seeded scripts of commits (with and without undo points, deletes of populated tasks, property removals), undo, stale undo (fetch, commit something else, then try), undo after sync and repeated undo, on 1-3 replicas that also sync. Oracles: the fetched undo list is the unsynced suffix from the last undo point; a successful undo removes exactly those operations and the replica invariant then pins the tasks to the earlier state; a stale or post-sync undo returns false and changes nothing; undone operations never reach the server (conservation). Non-trivial: at least one undo succeeded; distinct = distinct trace hash.",
            gen: gen_c07,
            run,
            shrink,
            real: REAL_A,
            stub: STUB_A,
            assumptions: &["operations are created through the TaskData API (valid, with true old values)"],
        },
        CheckDef {
            id: "C04",
            level: "fault_enumeration",
            runs_quick: 12_000,
            runs_thorough: 600_000,
            rule: "for each seeded history (1-3 replicas, commits and syncs, sometimes >1MB pending) one sync is executed once fault-free to enumerate its interruption points (every storage call and every server request) and then once per point and fault kind {error before effect, effect then error/lost reply, process stop = future dropped, store kept}; after each: replica invariant, then the sync is repeated fault-free and replica and chain must equal the uninterrupted outcome, then all replicas sync to quiescence (convergence, conservation, bounded liveness). evaluations = executions; exhaustive per sampled sync, sampled over histories. Non-trivial: the scenario swept at least one point; distinct = distinct trace hash.",
            gen: gen_c04,
            run: run_sweep,
            shrink,
            real: REAL_A,
            stub: STUB_A,
            assumptions: &["process stop is modelled by dropping the replica's future and keeping only the committed store (in-memory storage here; the SQLite crash sweep is C06)", "storage errors surface as Error::Other like real rusqlite/I-O errors"],
        },
        CheckDef {
            id: "C05",
            level: "fault_enumeration",
            runs_quick: 250_000,
            runs_thorough: 2_000_000,
            rule: "seeded histories on 1-2 replicas followed by arbitrary operation batches (valid or not: create of existing, update/delete of missing tasks, delete-then-create, property removal, undo points, arbitrary old values); after every commit the unsynced list must be the prior list plus the batch in order and tasks must equal M-apply(base state, unsynced) (the documented operation model); one further commit is then executed once per storage call index and fault kind {error before, error after, process stop} and the store must be exactly the before- or the after-state. evaluations = executions. Non-trivial: at least one point swept.",
            gen: gen_c05,
            run: run_sweep,
            shrink,
            real: REAL_A,
            stub: STUB_A,
            assumptions: &["in-memory storage here; the same sweep over SqliteStorage is part of C06"],
        },
        CheckDef {
            id: "C03",
            level: "exploration",
            runs_quick: 300_000,
            runs_thorough: 3_000_000,
            rule: "round-structured histories: 2-3 replicas quiescent on a common state each commit one batch (per task: create+updates with distinct properties, or a delete), then synchronize; every round is re-executed from a copy of the common state under every order of first syncs (N! orders) followed by seeded interleaved catch-up syncs; each execution must equal the documented-winner model (M-winner) and all executions must agree. evaluations = executions (round x order). Non-trivial: a round in which at least two replicas committed something; distinct = distinct trace hash.",
            gen: gen_c03,
            run: run_c03,
            shrink: shrink_c03,
            real: REAL_A,
            stub: STUB_A,
            assumptions: &["batches are restricted to the forms for which the documentation gives an unambiguous winner", "for equal greatest timestamps with different values any of the tied values is accepted, but it must be the same in every order"],
        },
        CheckDef {
            id: "C01",
            level: "exploration",
            runs_quick: 60_000,
            runs_thorough: 12_000_000,
            rule: "seeded scenarios: 1-5 replicas, scripts of commit/sync actions (intents resolved through the TaskData API), tied/decreasing/random timestamps, 1/8 of runs with >1MB pending changes; syncs atomic, action order chosen by the seeded scheduler. A run is non-trivial if some sync pulled a remote version and then pushed local changes (a rebase happened); distinct = distinct hash of the (node,label,decision,scheduling choice) trace.",
            gen: gen_c01,
            run,
            shrink,
            real: REAL_A,
            stub: STUB_A,
            assumptions: &["replicas create only valid operations (intents resolved against local state), as the documentation requires", "SimServer implements the documented chain protocol"],
        },
        CheckDef {
            id: "C02",
            level: "exploration",
            runs_quick: 200_000,
            runs_thorough: 12_000_000,
            rule: "seeded scenarios: 2-4 replicas whose sync calls are in flight simultaneously; every Server request is a scheduling point and the seeded scheduler (uniform / hold-at-add_version / stall-one-node) picks the interleaving. Non-trivial: at least one add_version was rejected (ExpectedParentVersion) in the run; distinct = distinct trace hash.",
            gen: gen_c02,
            run,
            shrink,
            real: REAL_A,
            stub: STUB_A,
            assumptions: &["replicas create only valid operations", "SimServer implements the documented chain protocol and is linearizable per request"],
        },
    ]
}
