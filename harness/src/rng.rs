//! The one PRNG everything derives from (SplitMix64 seeding a xoshiro256**).

#[derive(Clone, Debug)]
pub struct Rng {
    s: [u64; 4],
}

pub fn splitmix(x: &mut u64) -> u64 {
    *x = x.wrapping_add(0x9E3779B97F4A7C15);
    let mut z = *x;
    z = (z ^ (z >> 30)).wrapping_mul(0xBF58476D1CE4E5B9);
    z = (z ^ (z >> 27)).wrapping_mul(0x94D049BB133111EB);
    z ^ (z >> 31)
}

/// Mix a seed with a tag and an index into a fresh seed.
pub fn mix(seed: u64, tag: &str, i: u64) -> u64 {
    let mut x = seed ^ 0xA076_1D64_78BD_642F;
    for b in tag.bytes() {
        x = x.wrapping_mul(0x100000001B3) ^ (b as u64);
        splitmix(&mut x);
    }
    x ^= i.wrapping_mul(0xE703_7ED1_A0B4_28DB);
    splitmix(&mut x)
}

impl Rng {
    pub fn state(&self) -> [u64; 4] {
        self.s
    }
    pub fn from_state(s: [u64; 4]) -> Rng {
        Rng { s }
    }
    pub fn new(seed: u64) -> Rng {
        let mut x = seed;
        let s = [
            splitmix(&mut x),
            splitmix(&mut x),
            splitmix(&mut x),
            splitmix(&mut x),
        ];
        Rng { s }
    }
    pub fn next_u64(&mut self) -> u64 {
        let r = self.s[1].wrapping_mul(5).rotate_left(7).wrapping_mul(9);
        let t = self.s[1] << 17;
        self.s[2] ^= self.s[0];
        self.s[3] ^= self.s[1];
        self.s[1] ^= self.s[2];
        self.s[0] ^= self.s[3];
        self.s[2] ^= t;
        self.s[3] = self.s[3].rotate_left(45);
        r
    }
    /// uniform in 0..n (n>0)
    pub fn below(&mut self, n: u64) -> u64 {
        debug_assert!(n > 0);
        self.next_u64() % n
    }
    pub fn range(&mut self, lo: i64, hi_incl: i64) -> i64 {
        lo + self.below((hi_incl - lo + 1) as u64) as i64
    }
    pub fn usize_below(&mut self, n: usize) -> usize {
        self.below(n as u64) as usize
    }
    /// true with probability num/den
    pub fn chance(&mut self, num: u64, den: u64) -> bool {
        self.below(den) < num
    }
    pub fn pick<'a, T>(&mut self, v: &'a [T]) -> &'a T {
        &v[self.usize_below(v.len())]
    }
    pub fn fill(&mut self, buf: &mut [u8]) {
        for chunk in buf.chunks_mut(8) {
            let r = self.next_u64().to_le_bytes();
            chunk.copy_from_slice(&r[..chunk.len()]);
        }
    }
    pub fn shuffle<T>(&mut self, v: &mut [T]) {
        for i in (1..v.len()).rev() {
            let j = self.usize_below(i + 1);
            v.swap(i, j);
        }
    }
}

/// FNV-1a 64 for trace/state hashing (stable across processes).
#[derive(Clone, Copy)]
pub struct Fnv(pub u64);
impl Default for Fnv {
    fn default() -> Self {
        Fnv(0xcbf29ce484222325)
    }
}
impl Fnv {
    pub fn write(&mut self, b: &[u8]) {
        for x in b {
            self.0 ^= *x as u64;
            self.0 = self.0.wrapping_mul(0x100000001b3);
        }
    }
    pub fn write_u64(&mut self, x: u64) {
        self.write(&x.to_le_bytes());
    }
    pub fn write_str(&mut self, s: &str) {
        self.write(s.as_bytes());
        self.write(&[0xff]);
    }
}
