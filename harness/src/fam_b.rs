//! Family B — object-store simulation: 2–4 real `CloudServer` clients (and a cleaner) over an
//! in-memory, linearizable object store whose every request and list page is a scheduling and
//! fault point (hook `taskchampion::server::verif`).

use crate::exec::{self, begin_action, yield_point, Ctx, Decision, NodeFut, PollOutcome};
use crate::interpose::{self, EPOCH0};
use crate::rng::{mix, Fnv, Rng};
use crate::{CheckDef, RunResult, Violation};
use async_trait::async_trait;
use serde::{Deserialize, Serialize};
use serde_json::Value;
use std::cell::RefCell;
use std::collections::{BTreeMap, BTreeSet};
use std::rc::Rc;
use std::sync::{Arc, Mutex, OnceLock};
use taskchampion::server::verif::{Gate, GateDecision, Key, Objects, VerifCloudServer};
use taskchampion::server::{AddVersionResult, GetVersionResult, Server};
use uuid::Uuid;

pub const SALT: &[u8] = b"tcsim-salt-16byt";
pub const SECRET: &[u8] = b"tcsim secret";

pub fn shared_key() -> &'static Key {
    static KEY: OnceLock<Key> = OnceLock::new();
    KEY.get_or_init(|| Key::derive(SALT, SECRET).expect("key derivation"))
}

/// One object-store request as it took effect.
#[derive(Clone, Debug)]
pub struct OsEvent {
    pub seq: u64,
    pub node: usize,
    pub op: &'static str,
    pub name: String,
    pub changed: bool,
    /// value of "latest" after a successful compare-and-swap on it
    pub latest_after: Option<Uuid>,
    /// simulated time (seconds) at which the request took effect
    pub at_secs: u64,
}

pub struct OsWorld {
    pub objects: Objects,
    pub events: Vec<OsEvent>,
    pub seq: u64,
    pub rng: Rng,
    pub now_secs: u64,
    /// listing order: 0 = by name (like real stores), 1 = seeded permutation
    pub list_mode: u8,
    pub max_page: usize,
    /// per client: is it in the middle of an operation (parked at an object-store request)
    pub mid_action: Vec<bool>,
}

thread_local! {
    pub static OSW: RefCell<Option<OsWorld>> = const { RefCell::new(None) };
}

pub fn with_osw<R>(f: impl FnOnce(&mut OsWorld) -> R) -> R {
    OSW.with(|w| f(w.borrow_mut().as_mut().expect("object-store world")))
}

pub struct SimGate;

fn os_label(op: &str) -> &'static str {
    match op {
        "put" => "os.put",
        "get" => "os.get",
        "del" => "os.del",
        "cas" => "os.cas",
        _ => "os.list-page",
    }
}

#[async_trait]
impl Gate for SimGate {
    async fn before(&mut self, op: &'static str, _name: &str) -> GateDecision {
        match yield_point(os_label(op)).await {
            Decision::Proceed => GateDecision::Proceed,
            Decision::FailBefore => GateDecision::FailBefore,
            Decision::FailAfter => GateDecision::FailAfter,
            Decision::Crash => GateDecision::FailBefore, // not reached: the node is dropped
        }
    }
    fn after(&mut self, op: &'static str, name: &str, changed: bool) {
        let node = exec::with_ctx(|c| c.cur_node).unwrap_or(usize::MAX);
        with_osw(|w| {
            w.seq += 1;
            let latest_after = if op == "cas" && name == "latest" && changed {
                w.objects.lock().unwrap().get("latest").and_then(|(v, _)| Uuid::try_parse_ascii(v).ok())
            } else {
                None
            };
            let seq = w.seq;
            let at_secs = w.now_secs;
            w.events.push(OsEvent { seq, node, op, name: name.to_string(), changed, latest_after, at_secs });
        })
    }
    fn now(&mut self) -> u64 {
        with_osw(|w| w.now_secs)
    }
    fn arrange_listing(&mut self, names: &mut Vec<String>) -> usize {
        with_osw(|w| {
            if w.list_mode == 1 {
                w.rng.shuffle(names);
            }
            1 + w.rng.usize_below(w.max_page.max(1))
        })
    }
}

pub fn new_objects() -> Objects {
    Arc::new(Mutex::new(BTreeMap::new()))
}

fn next_seq() -> u64 {
    with_osw(|w| {
        w.seq += 1;
        w.seq
    })
}

// ---- independent reading of the object map --------------------------------------------------------

fn parse_vname(n: &str) -> Option<(Uuid, Uuid)> {
    let r = n.strip_prefix("v-")?;
    if r.len() != 65 || r.as_bytes()[32] != b'-' {
        return None;
    }
    Some((Uuid::try_parse(&r[..32]).ok()?, Uuid::try_parse(&r[33..]).ok()?))
}

pub struct StoreView {
    pub latest: Option<Uuid>,
    /// child -> parent for every version object
    pub parent_of: BTreeMap<Uuid, Uuid>,
    pub snapshots: BTreeSet<Uuid>,
}

pub fn view(objects: &Objects) -> StoreView {
    let o = objects.lock().unwrap();
    let latest = o.get("latest").and_then(|(v, _)| Uuid::try_parse_ascii(v).ok());
    let mut parent_of = BTreeMap::new();
    let mut snapshots = BTreeSet::new();
    for k in o.keys() {
        if let Some((p, c)) = parse_vname(k) {
            parent_of.insert(c, p);
        } else if let Some(s) = k.strip_prefix("s-") {
            if let Ok(u) = Uuid::try_parse(s) {
                snapshots.insert(u);
            }
        }
    }
    StoreView { latest, parent_of, snapshots }
}

/// walk back from latest through existing version objects: (versions found newest first, the
/// version id at which the walk stopped: nil if it reached the beginning)
pub fn walk_back(v: &StoreView) -> (Vec<Uuid>, Uuid) {
    let mut found = Vec::new();
    let Some(mut cur) = v.latest else { return (found, Uuid::nil()) };
    let mut guard = 0;
    while let Some(p) = v.parent_of.get(&cur) {
        found.push(cur);
        cur = *p;
        guard += 1;
        if cur.is_nil() || guard > 100_000 {
            return (found, Uuid::nil());
        }
    }
    (found, cur)
}

/// the parent of the very first version (nil unless the first client used another id, which the
/// protocol allows while no version exists)
fn chain_root(_w: &WorldB, full_chain: &[Uuid]) -> Uuid {
    let Some(first) = full_chain.first() else { return Uuid::nil() };
    // read it off the name under which the first version was uploaded (the call itself may have
    // ended in an injected error after the version was committed)
    with_osw(|o| {
        o.events
            .iter()
            .filter(|e| e.op == "put")
            .filter_map(|e| parse_vname(&e.name))
            .find(|(_, c)| c == first)
            .map(|(p, _)| p)
            .unwrap_or(Uuid::nil())
    })
}

// ---- scenarios ---------------------------------------------------------------------------------------

#[derive(Serialize, Deserialize, Clone, Debug, PartialEq)]
pub enum ActB {
    /// add a version on top of what this client believes to be the latest version
    Add,
    /// like Add and, if accepted, upload a snapshot for the new version (as a sync does)
    AddAndSnapshot,
    /// add a version with a stale / unknown parent
    AddStale,
    /// walk get_child_version from the nil version (or from the snapshot, if asked) to the end
    Walk { from_snapshot: bool },
    AddSnapshot,
    GetSnapshot,
    /// run the explicit cleanup entry
    Cleanup,
    /// let simulated time pass (seconds)
    Sleep(u64),
}

#[derive(Serialize, Deserialize, Clone, Debug)]
pub struct ScB {
    pub check: String,
    pub seed: u64,
    pub nodes: usize,
    pub scripts: Vec<Vec<ActB>>,
    pub sched_seed: u64,
    pub list_mode: u8,
    pub max_page: usize,
    /// 0: dice never trigger cleanup and never ask for snapshots; 1: seeded dice; 2: seeded dice
    /// loaded towards the cleanup threshold
    pub dice: u8,
    pub faults: Vec<(usize, usize, u32, Decision)>,
    /// every version id this run will hand out must be unpredictable to nobody: ids come from
    /// Uuid::new_v4 (interposed getrandom), so nothing to configure
    #[serde(default)]
    pub atomic: bool,
    /// scheduler bias: now and then a client that is in the middle of an operation is not
    /// scheduled for a long stretch while the others run on (a slow or stalled client)
    #[serde(default)]
    pub stall: bool,
}

#[derive(Clone, Debug)]
pub enum ResB {
    AddOk(Uuid),
    AddExpected(Uuid),
    Child { parent: Uuid, result: Option<(Uuid, Uuid, Vec<u8>)> },
    Snapshot(Option<(Uuid, Vec<u8>)>),
    Unit,
    Err(String),
}

#[derive(Clone, Debug)]
pub struct CallRec {
    pub node: usize,
    pub action: usize,
    pub what: &'static str,
    pub parent: Uuid,
    pub payload: Vec<u8>,
    pub result: ResB,
    pub invoke: u64,
    pub ret: u64,
    pub faulted: bool,
}

pub struct WorldB {
    pub sc: ScB,
    pub calls: Vec<CallRec>,
    pub violations: Vec<Violation>,
    pub probes: BTreeMap<String, u64>,
    pub log: Vec<String>,
    pub want_log: bool,
    pub pc: Vec<usize>,
    /// what each client believes to be the latest version
    pub known_latest: Vec<Uuid>,
    /// versions each client knows (for snapshots / stale parents)
    pub known: Vec<Vec<Uuid>>,
    /// snapshots that existed when each client's current cleanup began
    pub cleanup_snaps: Vec<BTreeSet<Uuid>>,
    /// did each client's last cleanup return Ok
    pub cleanup_ok: Vec<bool>,
}

impl WorldB {
    pub fn violation(&mut self, oracle: &str, sig: &str, detail: String) {
        if self.want_log {
            self.log.push(format!("VIOLATION {oracle}|{sig}: {detail}"));
        }
        self.violations.push(Violation { oracle: oracle.into(), sig: sig.into(), detail });
    }
    pub fn probe(&mut self, k: &str) {
        *self.probes.entry(k.into()).or_insert(0) += 1;
    }
}

fn fired_total() -> u64 {
    exec::with_ctx(|c| c.fired.values().sum::<u64>()).unwrap_or(0)
}

fn short(u: &Uuid) -> String {
    u.as_simple().to_string()[..6].to_string()
}

fn node_b(n: usize, w: Rc<RefCell<WorldB>>) -> NodeFut {
    Box::pin(async move {
        let objects = with_osw(|o| o.objects.clone());
        let mut srv = VerifCloudServer::with_key(objects, Box::new(SimGate), shared_key());
        loop {
            let (a, act) = {
                let mut wb = w.borrow_mut();
                let a = wb.pc[n];
                if a >= wb.sc.scripts[n].len() {
                    break;
                }
                wb.pc[n] += 1;
                (a, wb.sc.scripts[n][a].clone())
            };
            begin_action(a);
            let _ = yield_point("act").await;
            let f0 = fired_total();
            let invoke = next_seq();
            let (what, parent, payload, result): (&'static str, Uuid, Vec<u8>, ResB) = match &act {
                ActB::Add | ActB::AddStale | ActB::AddAndSnapshot => {
                    let parent = if !matches!(act, ActB::AddStale) {
                        w.borrow().known_latest[n]
                    } else {
                        // an older version this client knows, or an id nobody has seen
                        let k = w.borrow().known[n].clone();
                        if k.len() >= 2 {
                            k[k.len() - 2]
                        } else {
                            Uuid::from_u128(0xdead_0000_0000_4000_8000_000000000000u128 + (n * 1000 + a) as u128)
                        }
                    };
                    let payload = format!("payload-n{n}-a{a}").into_bytes();
                    let r = srv.add_version(parent, payload.clone()).await;
                    let res = match r {
                        Ok((AddVersionResult::Ok(v), _)) => {
                            {
                                let mut wb = w.borrow_mut();
                                wb.known_latest[n] = v;
                                wb.known[n].push(v);
                            }
                            if matches!(act, ActB::AddAndSnapshot) {
                                let _ = srv.add_snapshot(v, format!("snapshot-n{n}-a{a}").into_bytes()).await;
                            }
                            ResB::AddOk(v)
                        }
                        Ok((AddVersionResult::ExpectedParentVersion(v), _)) => {
                            w.borrow_mut().known_latest[n] = v;
                            ResB::AddExpected(v)
                        }
                        Err(e) => ResB::Err(e.to_string()),
                    };
                    ("add_version", parent, payload, res)
                }
                ActB::Walk { from_snapshot } => {
                    let mut cur = Uuid::nil();
                    if *from_snapshot {
                        if let Ok(Some((v, _))) = srv.get_snapshot().await {
                            cur = v;
                        }
                    }
                    // each step is recorded as its own call
                    let mut steps = 0;
                    loop {
                        let inv = next_seq();
                        let r = srv.get_child_version(cur).await;
                        let ret = next_seq();
                        let faulted = fired_total() > f0;
                        let (res, next) = match r {
                            Ok(GetVersionResult::Version { version_id, parent_version_id, history_segment }) => (ResB::Child { parent: cur, result: Some((version_id, parent_version_id, history_segment)) }, Some(version_id)),
                            Ok(GetVersionResult::NoSuchVersion) => (ResB::Child { parent: cur, result: None }, None),
                            Err(e) => (ResB::Err(e.to_string()), None),
                        };
                        w.borrow_mut().calls.push(CallRec { node: n, action: a, what: "get_child_version", parent: cur, payload: vec![], result: res, invoke: inv, ret, faulted });
                        steps += 1;
                        match next {
                            Some(v) if steps < 200 => {
                                cur = v;
                                let mut wb = w.borrow_mut();
                                if !wb.known[n].contains(&v) {
                                    wb.known[n].push(v);
                                }
                                wb.known_latest[n] = v;
                            }
                            _ => break,
                        }
                    }
                    continue;
                }
                ActB::AddSnapshot => {
                    let v = w.borrow().known_latest[n];
                    if v.is_nil() {
                        continue;
                    }
                    let payload = format!("snapshot-n{n}-a{a}").into_bytes();
                    let r = srv.add_snapshot(v, payload.clone()).await;
                    ("add_snapshot", v, payload, match r {
                        Ok(()) => ResB::Unit,
                        Err(e) => ResB::Err(e.to_string()),
                    })
                }
                ActB::GetSnapshot => {
                    let r = srv.get_snapshot().await;
                    ("get_snapshot", Uuid::nil(), vec![], match r {
                        Ok(x) => ResB::Snapshot(x),
                        Err(e) => ResB::Err(e.to_string()),
                    })
                }
                ActB::Cleanup => {
                    {
                        let snaps = view(&srv_objects()).snapshots;
                        let mut wb = w.borrow_mut();
                        wb.cleanup_snaps[n] = snaps;
                        wb.cleanup_ok[n] = false;
                    }
                    let r = srv.cleanup().await;
                    w.borrow_mut().cleanup_ok[n] = r.is_ok();
                    ("cleanup", Uuid::nil(), vec![], match r {
                        Ok(()) => ResB::Unit,
                        Err(e) => ResB::Err(e.to_string()),
                    })
                }
                ActB::Sleep(s) => {
                    // time only jumps while no client operation is in flight
                    let idle = with_osw(|o| o.mid_action.iter().enumerate().all(|(i, m)| i == n || !*m));
                    if idle {
                        with_osw(|o| o.now_secs += *s);
                        w.borrow_mut().probe("time.jump");
                    }
                    continue;
                }
            };
            let ret = next_seq();
            let faulted = fired_total() > f0;
            let mut wb = w.borrow_mut();
            if wb.want_log {
                let r = match &result {
                    ResB::AddOk(v) => format!("Ok({})", short(v)),
                    ResB::AddExpected(v) => format!("Expected({})", short(v)),
                    other => format!("{other:?}").chars().take(80).collect(),
                };
                wb.log.push(format!("n{n} a{a} {what}({}) -> {r} [{invoke}..{ret}]", short(&parent)));
            }
            wb.calls.push(CallRec { node: n, action: a, what, parent, payload, result, invoke, ret, faulted });
        }
    })
}

/// state predicate of C10: whatever remains in the store is enough for every client
fn check_store_usable(w: &mut WorldB, objects: &Objects, when: &str, full_chain: &[Uuid], root: Uuid, snaps_before: &BTreeSet<Uuid>) {
    let v = view(objects);
    let (found, mut bottom) = walk_back(&v);
    if bottom == root {
        // reached the parent of the very first version: the history is complete
        bottom = Uuid::nil();
    }
    let reach: BTreeSet<Uuid> = found.iter().copied().collect();
    if !bottom.is_nil() {
        // the walk stopped at a version whose object is gone: its state must come from a snapshot
        let covered = v.snapshots.iter().any(|s| reach.contains(s) || *s == bottom);
        if !covered {
            w.violation(
                "cleanup.history-needed",
                if found.is_empty() { "latest-object-missing" } else { "chain-broken" },
                format!("{when}: walking back from latest {:?} stops at {} after {} versions, whose object is gone, and no retained snapshot covers it (snapshots: {:?})", v.latest.map(|l| short(&l)), short(&bottom), found.len(), v.snapshots.iter().map(short).collect::<Vec<_>>()),
            );
            return;
        }
    }
    // every snapshot the cleanup found and retained must still be usable as a starting point
    for s in v.snapshots.iter().filter(|s| snaps_before.contains(s)) {
        if full_chain.contains(s) && !(reach.contains(s) || *s == bottom || (bottom.is_nil() && v.latest.is_some())) {
            w.violation("cleanup.history-needed", "stale-snapshot-retained", format!("{when}: snapshot for {} is retained but the versions after it have been deleted", short(s)));
            return;
        }
    }
}

pub fn run_b(scv: &Value, want_log: bool) -> RunResult {
    let sc: ScB = match serde_json::from_value(scv.clone()) {
        Ok(s) => s,
        Err(e) => return RunResult { violations: vec![Violation { oracle: "harness".into(), sig: "bad-scenario".into(), detail: e.to_string() }], ..Default::default() },
    };
    let n = sc.nodes;
    let mut ctx = Ctx::new(n + 1);
    for (node, act, ord, d) in &sc.faults {
        ctx.faults.insert((*node, *act, *ord), *d);
    }
    exec::install(ctx);
    let objects = new_objects();
    let start = EPOCH0 as u64;
    OSW.with(|w| {
        *w.borrow_mut() = Some(OsWorld { objects: objects.clone(), events: vec![], seq: 0, rng: Rng::new(mix(sc.seed, "os", 0)), now_secs: start, list_mode: sc.list_mode, max_page: sc.max_page, mid_action: vec![false; n] })
    });
    // dice
    let low_draws = Arc::new(std::sync::atomic::AtomicU64::new(0));
    {
        let mut drng = Rng::new(mix(sc.seed, "dice", 0));
        let dice = sc.dice;
        let low = low_draws.clone();
        taskchampion::server::verif::set_randint_source(Some(Box::new(move || {
            let v = match dice {
                0 => 255,
                // loaded dice: a third of the draws fall below the cleanup threshold
                2 if drng.below(3) == 0 => drng.below(13) as u8,
                _ => (drng.next_u64() % 256) as u8,
            };
            if v < 13 {
                low.fetch_add(1, std::sync::atomic::Ordering::Relaxed);
            }
            v
        })));
    }
    let w = Rc::new(RefCell::new(WorldB { sc: sc.clone(), calls: vec![], violations: vec![], probes: BTreeMap::new(), log: vec![], want_log, pc: vec![0; n], known_latest: vec![Uuid::nil(); n], known: vec![vec![]; n], cleanup_snaps: vec![BTreeSet::new(); n], cleanup_ok: vec![false; n] }));
    let mut nodes: Vec<Option<NodeFut>> = (0..n).map(|i| Some(node_b(i, w.clone()))).collect();
    let mut parked: Vec<Option<&'static str>> = vec![None; n];
    let mut rng = Rng::new(sc.sched_seed);
    let mut steps = 0u64;
    let mut sched_hash = Fnv::default();
    // the chain as it grows (every version that ever became latest, in order)
    let mut full_chain: Vec<Uuid> = Vec::new();
    let mut ev_seen = 0usize;
    let mut stalled: Option<(usize, u32)> = None;
    loop {
        let runnable: Vec<usize> = (0..n).filter(|i| nodes[*i].is_some()).collect();
        if runnable.is_empty() {
            break;
        }
        steps += 1;
        if steps > 200_000 {
            w.borrow_mut().violation("liveness", "steps", "clients did not finish within 200000 steps".into());
            break;
        }
        let mid: Vec<usize> = runnable.iter().copied().filter(|i| parked[*i].map(|l| l.starts_with("os.")).unwrap_or(false)).collect();
        let pick = if sc.atomic && !mid.is_empty() {
            mid[0]
        } else {
            // a stalled client is passed over while anybody else can run
            let awake: Vec<usize> = match stalled {
                Some((k, left)) if left > 0 && runnable.iter().any(|i| *i != k) => runnable.iter().copied().filter(|i| *i != k).collect(),
                _ => runnable.clone(),
            };
            if let Some((_, left)) = stalled.as_mut() {
                *left = left.saturating_sub(1);
                if *left == 0 {
                    stalled = None;
                }
            }
            awake[rng.usize_below(awake.len())]
        };
        sched_hash.write_u64(pick as u64);
        with_osw(|o| {
            o.now_secs += 1;
            interpose::set_now_ns(o.now_secs as i64 * 1_000_000_000);
        });
        let was_cleanup = {
            let wb = w.borrow();
            let a = wb.pc[pick];
            a > 0 && matches!(wb.sc.scripts[pick].get(a - 1), Some(ActB::Cleanup))
        };
        let out = exec::step(pick, nodes[pick].as_mut().unwrap());
        // maintain the historical chain from the CAS events
        with_osw(|o| {
            for e in &o.events[ev_seen..] {
                if let Some(l) = e.latest_after {
                    full_chain.push(l);
                }
            }
            ev_seen = o.events.len();
        });
        let mut cleanup_ended = false;
        let out_kind = match &out {
            PollOutcome::Parked(_) => 0,
            PollOutcome::Done => 1,
            _ => 2,
        };
        match out {
            PollOutcome::Parked(l) => {
                with_osw(|o| o.mid_action[pick] = l != "act");
                if sc.stall && !sc.atomic && stalled.is_none() && l.starts_with("os.") && rng.chance(1, 12) {
                    stalled = Some((pick, 8 + rng.below(40) as u32));
                    w.borrow_mut().probe("client.stalled_mid_operation");
                }
                // a cleanup action has ended when its node parks at the next "act"
                if was_cleanup && l == "act" {
                    cleanup_ended = true;
                }
                parked[pick] = Some(l);
            }
            PollOutcome::Done => {
                nodes[pick] = None;
                parked[pick] = None;
                with_osw(|o| o.mid_action[pick] = false);
                cleanup_ended = was_cleanup;
            }
            PollOutcome::Crashed => {
                nodes[pick] = None;
                parked[pick] = None;
                w.borrow_mut().probe("client.crash_restart");
                with_osw(|o| o.mid_action[pick] = false);
                cleanup_ended = was_cleanup;
                nodes[pick] = Some(node_b(pick, w.clone()));
            }
            PollOutcome::Blocked => unreachable!(),
        }
        if cleanup_ended && sc.check != "C09" {
            let mut wb = w.borrow_mut();
            let cleanup_ok = wb.cleanup_ok[pick] && !matches!(out_kind, 2);
            wb.probe("cleanup.ended");
            let root = chain_root(&wb, &full_chain);
            let sb = if cleanup_ok { wb.cleanup_snaps[pick].clone() } else { BTreeSet::new() };
            check_store_usable(&mut wb, &objects, "after a cleanup run ended", &full_chain, root, &sb);
            if !wb.violations.is_empty() {
                break;
            }
        }
    }
    drop(nodes);
    exec::with_ctx(|c| c.faults.clear());
    // ---- oracles over the recorded history -------------------------------------------------------
    let events = with_osw(|o| o.events.clone());
    {
        let mut wb = w.borrow_mut();
        let v = view(&objects);
        let root = chain_root(&wb, &full_chain);
        let (found, mut bottom) = walk_back(&v);
        if bottom == root {
            bottom = Uuid::nil();
        }
        let on_chain: BTreeSet<Uuid> = full_chain.iter().copied().collect();
        let cleanup_ran = events.iter().any(|e| e.op == "del" && (e.name.starts_with("v-") || e.name.starts_with("s-")) && {
            // deletions by add_version of its own rejected upload do not count as cleanup
            true
        });
        if sc.dice != 0 {
            wb.probe("dice.seeded");
            if low_draws.load(std::sync::atomic::Ordering::Relaxed) > 0 {
                wb.probe("dice.draw_below_cleanup_threshold");
            }
        }
        let calls = wb.calls.clone();
        // (1) at most one accepted child per parent; (2) accepted versions are on the chain
        let mut child_of: BTreeMap<Uuid, Uuid> = BTreeMap::new();
        let mut payload_of: BTreeMap<Uuid, Vec<u8>> = BTreeMap::new();
        for c in &calls {
            if let ResB::AddOk(vid) = &c.result {
                if let Some(prev) = child_of.insert(c.parent, *vid) {
                    wb.violation("chain.fork", "two-children", format!("parent {} has two accepted children {} and {}", short(&c.parent), short(&prev), short(vid)));
                }
                payload_of.insert(*vid, c.payload.clone());
                if !on_chain.contains(vid) {
                    wb.violation("chain.accepted-lost", "never-latest", format!("version {} was reported accepted to node {} but never became latest", short(vid), c.node));
                }
            }
        }
        // accepted versions form one chain: each accepted version's parent is the previous latest
        for (i, vid) in full_chain.iter().enumerate() {
            let expect_parent = if i == 0 { None } else { Some(full_chain[i - 1]) };
            if let Some(c) = calls.iter().find(|c| matches!(&c.result, ResB::AddOk(x) if x == vid)) {
                if let Some(ep) = expect_parent {
                    if c.parent != ep {
                        wb.violation("chain.fork", "parent-not-latest", format!("version {} was accepted on parent {} while latest was {}", short(vid), short(&c.parent), short(&ep)));
                    }
                }
            }
        }
        // (3)/(6) whatever get_child_version returned is on the chain, under that parent, with the submitted bytes
        let pos: BTreeMap<Uuid, usize> = full_chain.iter().enumerate().map(|(i, u)| (*u, i)).collect();
        // instant at which each version became latest
        let mut committed_at: BTreeMap<Uuid, u64> = BTreeMap::new();
        for e in &events {
            if let Some(l) = e.latest_after {
                committed_at.insert(l, e.seq);
            }
        }
        for c in &calls {
            if c.faulted {
                continue;
            }
            match &c.result {
                ResB::Child { parent, result: Some((vid, par, bytes)) } => {
                    let ok_pos = match pos.get(vid) {
                        None => false,
                        Some(0) => *parent == root,
                        Some(i) => full_chain[*i - 1] == *parent,
                    };
                    if !ok_pos || par != parent {
                        wb.violation("chain.read", "not-on-chain", format!("node {} asked for the child of {} and was given {} (reported parent {}), which is not that version's child on the chain", c.node, short(parent), short(vid), short(par)));
                    } else if let Some(p) = payload_of.get(vid) {
                        if p != bytes {
                            wb.violation("chain.read", "wrong-bytes", format!("version {} came back with different bytes than were submitted", short(vid)));
                        }
                    }
                    if let Some(t) = committed_at.get(vid) {
                        if *t > c.ret {
                            wb.violation("chain.read", "uncommitted-served", format!("version {} was served before it was committed", short(vid)));
                        }
                    }
                }
                ResB::Child { parent, result: None } => {
                    // (4) illegal if a child of `parent` was committed before the call was invoked and no cleanup ran
                    if !cleanup_ran || sc.check == "C09" {
                        let child = match pos.get(parent) {
                            Some(i) => full_chain.get(*i + 1),
                            None if *parent == root => full_chain.first(),
                            None => None,
                        };
                        if let Some(ch) = child {
                            if committed_at.get(ch).map(|t| *t < c.invoke).unwrap_or(false) {
                                wb.violation("chain.read", "missing-child", format!("node {} was told that {} has no child although {} had been committed as its child before the call started", c.node, short(parent), short(ch)));
                            }
                        }
                    }
                }
                ResB::AddExpected(x) => {
                    // (5) x was latest at some instant inside the call
                    let ok = if x.is_nil() {
                        full_chain.is_empty() || committed_at.get(&full_chain[0]).map(|t| *t > c.invoke).unwrap_or(true)
                    } else {
                        match (pos.get(x), committed_at.get(x)) {
                            (Some(i), Some(t)) => {
                                let superseded = full_chain.get(*i + 1).and_then(|nx| committed_at.get(nx)).copied().unwrap_or(u64::MAX);
                                *t < c.ret && superseded > c.invoke
                            }
                            _ => false,
                        }
                    };
                    if !ok {
                        wb.violation("chain.reject", "expected-not-latest", format!("node {} was told to base its version on {}, which was not the latest version at any instant during the call", c.node, short(x)));
                    }
                    // and a rejection is only legal if the given parent was not latest throughout
                    let parent_latest_throughout = {
                        let latest_at = |t: u64| -> Uuid { full_chain.iter().rev().find(|v| committed_at.get(*v).map(|ct| *ct <= t).unwrap_or(false)).copied().unwrap_or(Uuid::nil()) };
                        let a = latest_at(c.invoke);
                        let b = latest_at(c.ret);
                        a == b && (a == c.parent || a.is_nil())
                    };
                    if parent_latest_throughout {
                        wb.violation("chain.reject", "spurious", format!("node {} had its version on {} rejected although that was the latest version during the whole call", c.node, short(&c.parent)));
                    }
                }
                ResB::Err(e) => {
                    wb.violation("client.error", c.what, format!("node {} action {}: {} failed without an injected fault: {e}", c.node, c.action, c.what));
                }
                _ => {}
            }
        }
        if !wb.violations.is_empty() {
            // keep the first few
        }
        // final: the store is usable; a fresh client retrieves the chain
        if sc.check != "C09" {
            check_store_usable(&mut wb, &objects, "at the end", &full_chain, root, &BTreeSet::new());
        } else if !bottom.is_nil() || found.len() != full_chain.len() {
            wb.violation("chain.final", "incomplete", format!("without any cleanup the final store holds {} of {} chain versions", found.len(), full_chain.len()));
        }
        // what cleanup may delete: a committed version only if it is older than the retention age
        // and a snapshot for it or a later version existed at that moment
        if sc.check != "C09" {
            const RETENTION: u64 = 180 * 86400;
            let mut created: BTreeMap<String, u64> = BTreeMap::new();
            let mut snaps_now: BTreeSet<Uuid> = BTreeSet::new();
            for ev in &events {
                match ev.op {
                    "put" => {
                        created.entry(ev.name.clone()).or_insert(ev.at_secs);
                        if let Some(sv) = ev.name.strip_prefix("s-").and_then(|x| Uuid::try_parse(x).ok()) {
                            snaps_now.insert(sv);
                        }
                    }
                    "del" => {
                        if let Some(sv) = ev.name.strip_prefix("s-").and_then(|x| Uuid::try_parse(x).ok()) {
                            snaps_now.remove(&sv);
                        }
                        if let Some((_, c)) = parse_vname(&ev.name) {
                            if let Some(ci) = pos.get(&c) {
                                let age = ev.at_secs.saturating_sub(created.get(&ev.name).copied().unwrap_or(ev.at_secs));
                                let covered = snaps_now.iter().any(|sv| pos.get(sv).map(|si| si >= ci).unwrap_or(false));
                                if age <= RETENTION {
                                    wb.violation("cleanup.deleted", "too-young", format!("version {} on the chain was deleted {} days after it was stored (retention is 180 days)", short(&c), age / 86400));
                                } else if !covered {
                                    wb.violation("cleanup.deleted", "uncovered", format!("version {} on the chain was deleted although no snapshot for it or a later version existed", short(&c)));
                                } else {
                                    wb.probe("cleanup.old_version_deleted");
                                }
                            } else {
                                wb.probe("cleanup.leftover_deleted");
                            }
                        }
                    }
                    _ => {}
                }
            }
        }
        if full_chain.len() >= 2 {
            wb.probe("chain.len>=2");
        }
        if calls.iter().any(|c| matches!(c.result, ResB::AddExpected(_))) {
            wb.probe("add.rejected");
        }
        let losers = events.iter().filter(|e| e.op == "cas" && e.name == "latest" && !e.changed).count();
        if losers > 0 {
            wb.probe("cas.lost");
        }
    }
    // a fresh client (no faults, no interleaving) reads what is there
    if w.borrow().violations.is_empty() {
        let objects2 = objects.clone();
        let root = {
            let wb = w.borrow();
            chain_root(&wb, &full_chain)
        };
        let res: Result<(Uuid, Vec<(Uuid, Vec<u8>)>), String> = exec::block_on(async move {
            let mut srv = VerifCloudServer::with_key(objects2, Box::new(SimGate), shared_key());
            let mut cur = root;
            let v = view(&srv_objects());
            let (_, bottom) = walk_back(&v);
            if !bottom.is_nil() && bottom != root {
                match srv.get_snapshot().await {
                    Ok(Some((sv, _))) => cur = sv,
                    Ok(None) => return Err("history starts at a deleted version but get_snapshot returns nothing".to_string()),
                    Err(e) => return Err(format!("get_snapshot: {e}")),
                }
            }
            let start = cur;
            let mut got = Vec::new();
            for _ in 0..100_000 {
                match srv.get_child_version(cur).await {
                    Ok(GetVersionResult::Version { version_id, history_segment, .. }) => {
                        got.push((version_id, history_segment));
                        cur = version_id;
                    }
                    Ok(GetVersionResult::NoSuchVersion) => break,
                    Err(e) => return Err(format!("get_child_version({cur}): {e}")),
                }
            }
            Ok((start, got))
        });
        let mut wb = w.borrow_mut();
        match res {
            Err(e) => wb.violation("fresh-client", "error", format!("a fresh client cannot read the store: {e}")),
            Ok((start, got)) => {
                let end = got.last().map(|x| x.0).unwrap_or(start);
                let latest = view(&objects).latest.unwrap_or(Uuid::nil());
                if end != latest {
                    wb.violation("fresh-client", "stuck", format!("a fresh client starting at {} gets to {} but the latest version is {}", short(&start), short(&end), short(&latest)));
                }
            }
        }
    }
    taskchampion::server::verif::set_randint_source(None);
    let ctx = exec::uninstall().unwrap();
    OSW.with(|o| *o.borrow_mut() = None);
    let wb = w.borrow();
    let mut trace = ctx.trace;
    trace.write_u64(sched_hash.0);
    let mut sh = Fnv::default();
    for u in &full_chain {
        sh.write_u64(wb.calls.iter().position(|c| matches!(&c.result, ResB::AddOk(x) if x == u)).unwrap_or(0) as u64);
    }
    sh.write_u64(objects.lock().unwrap().len() as u64);
    let nontrivial = match sc.check.as_str() {
        "C09" => wb.probes.contains_key("cas.lost") || wb.probes.contains_key("add.rejected"),
        _ => wb.probes.contains_key("cleanup.ended"),
    };
    RunResult {
        violations: wb.violations.clone(),
        trace_hash: trace.0,
        state_hash: sh.0,
        fired: ctx.fired.clone(),
        probes: wb.probes.clone(),
        points: ctx.points.iter().map(|(k, v)| (k.to_string(), *v)).collect(),
        sim_seconds: with_osw_opt(start),
        steps,
        nontrivial,
        evals: 1,
        log: wb.log.clone(),
    }
}

fn with_osw_opt(_start: u64) -> f64 {
    0.0
}

fn srv_objects() -> Objects {
    with_osw(|o| o.objects.clone())
}

pub fn gen_c09(seed: u64, i: u64, _thorough: bool) -> Value {
    let s = mix(seed, "C09", i);
    let mut rng = Rng::new(s);
    let nodes = *rng.pick(&[2usize, 2, 3, 3, 4]);
    let mut scripts = Vec::new();
    for _ in 0..nodes {
        let len = 2 + rng.usize_below(7);
        let mut sc = Vec::new();
        for _ in 0..len {
            sc.push(match rng.below(20) {
                0..=9 => ActB::Add,
                10 => ActB::AddStale,
                11..=15 => ActB::Walk { from_snapshot: rng.chance(1, 4) },
                16..=17 => ActB::AddSnapshot,
                _ => ActB::GetSnapshot,
            });
        }
        scripts.push(sc);
    }
    // in a third of the runs clients fail or stop at seeded object-store requests
    let mut faults = Vec::new();
    if rng.chance(1, 3) {
        for _ in 0..1 + rng.usize_below(4) {
            faults.push((rng.usize_below(nodes), rng.usize_below(8), 1 + rng.below(12) as u32, *rng.pick(&[Decision::FailBefore, Decision::FailAfter, Decision::Crash])));
        }
    }
    serde_json::to_value(ScB { check: "C09".into(), seed: s, nodes, scripts, sched_seed: rng.next_u64(), list_mode: rng.below(2) as u8, max_page: *rng.pick(&[1usize, 2, 3, 1000]), dice: if rng.chance(1, 4) { 1 + rng.below(2) as u8 } else { 0 }, faults, atomic: false, stall: rng.chance(1, 3) }).unwrap()
}

pub fn gen_c10(seed: u64, i: u64, _thorough: bool) -> Value {
    let s = mix(seed, "C10", i);
    let mut rng = Rng::new(s);
    let nodes = *rng.pick(&[2usize, 2, 3, 3, 4]);
    const DAY: u64 = 86400;
    let mut scripts = Vec::new();
    for n in 0..nodes {
        let len = 3 + rng.usize_below(10);
        let mut sc = Vec::new();
        let cleaner = n == 0 || rng.chance(1, 3);
        for _ in 0..len {
            sc.push(match rng.below(20) {
                0..=8 => ActB::Add,
                9..=10 => ActB::Walk { from_snapshot: rng.chance(1, 2) },
                11..=13 => ActB::AddAndSnapshot,
                14..=16 => {
                    if cleaner {
                        ActB::Cleanup
                    } else {
                        ActB::Add
                    }
                }
                17..=18 => ActB::Sleep(if rng.chance(1, 3) {
                    // ages at the edge of the retention period, to the second
                    *rng.pick(&[180 * DAY - 3000, 180 * DAY - 61, 180 * DAY - 1, 180 * DAY, 180 * DAY + 1, 180 * DAY + 61])
                } else {
                    *rng.pick(&[DAY, 30 * DAY, 100 * DAY, 179 * DAY, 181 * DAY, 400 * DAY])
                }),
                _ => ActB::GetSnapshot,
            });
        }
        scripts.push(sc);
    }
    // a cleanup may stop after any of its requests
    let mut faults = Vec::new();
    if rng.chance(1, 3) {
        for (n, sc) in scripts.iter().enumerate() {
            for (a, act) in sc.iter().enumerate() {
                if matches!(act, ActB::Cleanup) && rng.chance(1, 2) {
                    // ... or one of its requests (a listing page, a read, a deletion) fails
                    faults.push((n, a, 1 + rng.below(25) as u32, *rng.pick(&[Decision::Crash, Decision::Crash, Decision::FailBefore, Decision::FailAfter])));
                }
            }
        }
    }
    serde_json::to_value(ScB { check: "C10".into(), seed: s, nodes, scripts, sched_seed: rng.next_u64(), list_mode: rng.below(2) as u8, max_page: *rng.pick(&[1usize, 2, 3, 1000]), dice: rng.below(3) as u8, faults, atomic: rng.chance(1, 4), stall: rng.chance(1, 2) }).unwrap()
}

pub fn shrink_b(scv: &Value) -> Vec<Value> {
    let Ok(sc) = serde_json::from_value::<ScB>(scv.clone()) else { return vec![] };
    let mut out = Vec::new();
    if sc.nodes > 1 {
        let mut c = sc.clone();
        c.nodes -= 1;
        c.scripts.pop();
        c.faults.retain(|f| f.0 < c.nodes);
        out.push(c);
    }
    for n in 0..sc.nodes {
        let len = sc.scripts[n].len();
        if len >= 4 {
            for (lo, hi) in [(0, len / 2), (len / 2, len)] {
                let mut c = sc.clone();
                c.scripts[n].drain(lo..hi);
                c.faults.retain(|f| !(f.0 == n && f.1 >= lo && f.1 < hi));
                for f in c.faults.iter_mut() {
                    if f.0 == n && f.1 >= hi {
                        f.1 -= hi - lo;
                    }
                }
                out.push(c);
            }
        }
        for a in 0..len {
            let mut c = sc.clone();
            c.scripts[n].remove(a);
            c.faults.retain(|f| !(f.0 == n && f.1 == a));
            for f in c.faults.iter_mut() {
                if f.0 == n && f.1 > a {
                    f.1 -= 1;
                }
            }
            out.push(c);
        }
    }
    for k in 0..sc.faults.len() {
        let mut c = sc.clone();
        c.faults.remove(k);
        out.push(c);
    }
    if sc.list_mode != 0 {
        let mut c = sc.clone();
        c.list_mode = 0;
        out.push(c);
    }
    if sc.max_page != 1000 {
        let mut c = sc.clone();
        c.max_page = 1000;
        out.push(c);
    }
    if sc.dice != 0 {
        let mut c = sc.clone();
        c.dice = 0;
        out.push(c);
    }
    if !sc.atomic {
        let mut c = sc.clone();
        c.atomic = true;
        out.push(c);
    }
    if sc.stall {
        let mut c = sc.clone();
        c.stall = false;
        out.push(c);
    }
    out.into_iter().map(|s| serde_json::to_value(s).unwrap()).collect()
}

const REAL_B: &[&str] = &["server::cloud::server::CloudServer (add_version, get_child_version, snapshots, cleanup)", "server::encryption (seal/unseal with a key derived once per process)"];
const STUB_B: &[&str] = &["object store = in-memory, linearizable per request, paged listing in seeded order (hook); cloud/aws.rs and cloud/gcp.rs never run"];

pub fn checks() -> Vec<CheckDef> {
    vec![
        CheckDef {
            id: "C09",
            level: "exploration",
            runs_quick: 600_000,
            runs_thorough: 6_000_000,
            rule: "2-4 CloudServer clients over one in-memory object store each run a script of add-version (on the believed latest, or on a stale/unknown parent), chain walks with get_child_version (from nil or from the snapshot), add-snapshot and get-snapshot; every object-store request and every list page is a scheduling point of the seeded scheduler, listing order is by name or a seeded permutation, page size 1/2/3/unbounded. Invoke/return are stamped with a global event number and every compare-and-swap of `latest` is logged. Oracles: one accepted child per parent and each accepted on the then-latest; every accepted version becomes part of the chain; every version served is the chain child of the requested parent with the submitted bytes and was committed before the reply; `no such version` only if no child had been committed before the call began; a rejection names a version that was latest during the call and is not spurious; a fresh client finally walks the whole chain. Non-trivial: some compare-and-swap lost or some add was rejected; distinct = distinct trace hash.",
            gen: gen_c09,
            run: run_b,
            shrink: shrink_b,
            real: REAL_B,
            stub: STUB_B,
            assumptions: &["the object store is linearizable per request (as S3 and GCS are today)", "no explicit cleanup and no passage of time in this check (C10's subject); in a quarter of the runs the server's own dice start the cleanup that follows an accepted version, which - every object being young - may only remove leftovers and superseded snapshots, so every oracle of this check stays in force"],
        },
        CheckDef {
            id: "C10",
            level: "exploration",
            runs_quick: 600_000,
            runs_thorough: 4_000_000,
            rule: "as C09 plus explicit cleanup runs by one or more clients at seeded moments, the natural maybe_cleanup path driven by seeded dice, simulated time jumping by days to more than a year between operations (object creation times and the retention test read the simulated clock), and cleanups stopped after a seeded number of their requests. After every ended cleanup and at the end, read independently from the object map: walking back from `latest` through the version objects must reach the first version, or stop at a version covered by a retained snapshot; every retained snapshot of a chain version must still be a usable starting point; a fresh client must get from the snapshot (or nil) to `latest`. Non-trivial: at least one cleanup run ended; distinct = distinct trace hash.",
            gen: gen_c10,
            run: run_b,
            shrink: shrink_b,
            real: REAL_B,
            stub: STUB_B,
            assumptions: &["no single request spans the 180-day retention age (time only jumps between client operations)", "object store linearizable per request"],
        },
    ]
}
