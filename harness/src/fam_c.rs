//! Family C — storage simulation over the real `SqliteStorage` (send_wrapper actor thread,
//! rusqlite, bundled SQLite) on a per-run directory in /dev/shm.
//!
//! C16: differential execution of one generated sequence of `StorageTxn` calls against
//! `InMemoryStorage` and `SqliteStorage`, with commit/abandon, close/reopen, read-only reopen
//! and databases created under historical schemas.

use crate::exec::block_on;
use crate::fam_a::{prop_name, task_uuid};
use crate::model::{self, TaskSet};
use crate::rng::{mix, Fnv, Rng};
use crate::simstorage::{read_state, StoreState};
use crate::{CheckDef, RunResult, Violation};
use serde::{Deserialize, Serialize};
use serde_json::Value;
use std::collections::BTreeMap;
use std::path::{Path, PathBuf};
use taskchampion::chrono::{TimeZone, Utc};
use taskchampion::storage::inmemory::InMemoryStorage;
use taskchampion::storage::{AccessMode, Storage, StorageTxn, TaskMap};
use taskchampion::{Operation, SqliteStorage};
use uuid::Uuid;

pub fn run_dir(tag: &str, seed: u64) -> PathBuf {
    let base = if Path::new("/dev/shm").is_dir() { PathBuf::from("/dev/shm") } else { std::env::temp_dir() };
    let d = base.join(format!("tcsim-{}-{}-{:016x}", std::process::id(), tag, seed));
    let _ = std::fs::remove_dir_all(&d);
    std::fs::create_dir_all(&d).expect("create run dir");
    d
}

pub struct DirGuard(pub PathBuf);
impl Drop for DirGuard {
    fn drop(&mut self) {
        let _ = std::fs::remove_dir_all(&self.0);
    }
}

#[derive(Serialize, Deserialize, Clone, Debug, PartialEq)]
pub enum StCall {
    GetTask(u8),
    GetPending,
    Create(u8),
    SetTask(u8, Vec<(String, String)>),
    Delete(u8),
    AllTasks,
    AllUuids,
    BaseVersion,
    SetBase(u8),
    TaskOps(u8),
    Unsynced,
    NumUnsynced,
    /// kind 0 create, 1 delete, 2 update, 3 undo point
    AddOp { kind: u8, t: u8, p: u8, val: Option<String> },
    /// remove the last unsynchronized operation (as the contract requires); `wrong`: pass an
    /// operation that does not match instead (must be refused by both)
    RemoveOp { wrong: bool },
    SyncComplete,
    GetWs,
    AddWs(u8),
    /// index = 1 + (i % (len-1)) when the working set has entries beyond 0; skipped otherwise
    SetWsItem(u8, Option<u8>),
    ClearWs,
    IsEmpty,
}

#[derive(Serialize, Deserialize, Clone, Debug)]
pub struct TxnScript {
    pub calls: Vec<StCall>,
    pub commit: bool,
    pub reopen_after: bool,
}

#[derive(Serialize, Deserialize, Clone, Debug)]
pub struct ScC16 {
    pub check: String,
    pub seed: u64,
    /// 0: fresh database; 1: created under the 0.8 schema; 2: 0.9; 3: (0,1); 4: (0,2)
    pub legacy: u8,
    pub prefill: Vec<TxnScript>,
    pub txns: Vec<TxnScript>,
}

#[derive(Debug, PartialEq, Clone)]
enum Ret {
    Unit,
    Bool(bool),
    OptTask(Option<model::Props>),
    Tasks(TaskSet),
    /// a collection that may list a task more than once (order-free, multiplicity kept)
    TaskList(Vec<(Uuid, model::Props)>),
    Uuids(Vec<Uuid>),
    Uuid(Uuid),
    Ops(Vec<Operation>),
    Usize(usize),
    Ws(Vec<Option<Uuid>>),
    Err,
    Skipped,
}

fn norm_ws(mut ws: Vec<Option<Uuid>>) -> Vec<Option<Uuid>> {
    while ws.len() > 1 && ws.last() == Some(&None) {
        ws.pop();
    }
    ws
}

fn version_id(i: u8) -> Uuid {
    Uuid::from_u128(0x5e550000_0000_4000_8000_000000000000u128 + i as u128)
}

fn mk_op(kind: u8, t: u8, p: u8, val: &Option<String>) -> Operation {
    let uuid = task_uuid(t);
    match kind % 4 {
        0 => Operation::Create { uuid },
        1 => Operation::Delete {
            uuid,
            // zero to five properties of the deleted task (kind's upper bits pick how many)
            old_task: (0..(kind / 4) % 6).map(|k| (prop_name(p.wrapping_add(k)), format!("old{k}"))).collect(),
        },
        2 => Operation::Update { uuid, property: prop_name(p), old_value: Some("o\u{e9}\"".into()), value: val.clone(), timestamp: Utc.timestamp_opt(1_700_000_000 + t as i64, 123_000_000).unwrap() },
        _ => Operation::UndoPoint,
    }
}

async fn do_call(txn: &mut dyn StorageTxn, c: &StCall) -> Ret {
    fn r<T>(x: Result<T, taskchampion::Error>, f: impl FnOnce(T) -> Ret) -> Ret {
        match x {
            Ok(v) => f(v),
            Err(_) => Ret::Err,
        }
    }
    match c {
        StCall::GetTask(t) => r(txn.get_task(task_uuid(*t)).await, |v| Ret::OptTask(v.map(|m| m.into_iter().collect()))),
        StCall::GetPending => r(txn.get_pending_tasks().await, |v| {
            let mut l: Vec<(Uuid, model::Props)> = v.into_iter().map(|(u, m)| (u, m.into_iter().collect())).collect();
            l.sort();
            Ret::TaskList(l)
        }),
        StCall::Create(t) => r(txn.create_task(task_uuid(*t)).await, Ret::Bool),
        StCall::SetTask(t, kv) => r(txn.set_task(task_uuid(*t), kv.iter().cloned().collect::<TaskMap>()).await, |_| Ret::Unit),
        StCall::Delete(t) => r(txn.delete_task(task_uuid(*t)).await, Ret::Bool),
        StCall::AllTasks => r(txn.all_tasks().await, |v| {
            let n = v.len();
            let m = model::canon_tasks(v);
            if m.len() != n {
                Ret::Err
            } else {
                Ret::Tasks(m)
            }
        }),
        StCall::AllUuids => r(txn.all_task_uuids().await, |mut v| {
            v.sort();
            Ret::Uuids(v)
        }),
        StCall::BaseVersion => r(txn.base_version().await, Ret::Uuid),
        StCall::SetBase(i) => r(txn.set_base_version(version_id(*i)).await, |_| Ret::Unit),
        StCall::TaskOps(t) => r(txn.get_task_operations(task_uuid(*t)).await, Ret::Ops),
        StCall::Unsynced => r(txn.unsynced_operations().await, Ret::Ops),
        StCall::NumUnsynced => r(txn.num_unsynced_operations().await, Ret::Usize),
        StCall::AddOp { kind, t, p, val } => r(txn.add_operation(mk_op(*kind, *t, *p, val)).await, |_| Ret::Unit),
        StCall::RemoveOp { wrong } => {
            let last = match txn.unsynced_operations().await {
                Ok(v) => v.last().cloned(),
                Err(_) => return Ret::Err,
            };
            let op = if *wrong {
                Operation::Update { uuid: task_uuid(99), property: "nope".into(), old_value: None, value: None, timestamp: Utc.timestamp_opt(1, 0).unwrap() }
            } else {
                match last {
                    Some(o) => o,
                    None => return Ret::Skipped,
                }
            };
            r(txn.remove_operation(op).await, |_| Ret::Unit)
        }
        StCall::SyncComplete => r(txn.sync_complete().await, |_| Ret::Unit),
        StCall::GetWs => r(txn.get_working_set().await, |v| Ret::Ws(norm_ws(v))),
        StCall::AddWs(t) => r(txn.add_to_working_set(task_uuid(*t)).await, Ret::Usize),
        StCall::SetWsItem(i, u) => {
            let len = match txn.get_working_set().await {
                Ok(v) => norm_ws(v).len(),
                Err(_) => return Ret::Err,
            };
            if len <= 1 {
                return Ret::Skipped;
            }
            let idx = 1 + (*i as usize % (len - 1));
            r(txn.set_working_set_item(idx, u.map(task_uuid)).await, |_| Ret::Unit)
        }
        StCall::ClearWs => r(txn.clear_working_set().await, |_| Ret::Unit),
        StCall::IsEmpty => r(txn.is_empty().await, Ret::Bool),
    }
}

fn is_mutator(c: &StCall) -> bool {
    matches!(
        c,
        StCall::Create(_) | StCall::SetTask(..) | StCall::Delete(_) | StCall::SetBase(_) | StCall::AddOp { .. } | StCall::RemoveOp { .. } | StCall::SyncComplete | StCall::AddWs(_) | StCall::SetWsItem(..) | StCall::ClearWs
    )
}

fn canon_state(mut s: StoreState) -> StoreState {
    s.working_set = norm_ws(s.working_set);
    s
}

// ---- historical schemas --------------------------------------------------------------------------

const DDL_0_8: &[&str] = &[
    "CREATE TABLE operations (id INTEGER PRIMARY KEY AUTOINCREMENT, data STRING);",
    "CREATE TABLE sync_meta (key STRING PRIMARY KEY, value STRING);",
    "CREATE TABLE tasks (uuid STRING PRIMARY KEY, data STRING);",
    "CREATE TABLE working_set (id INTEGER PRIMARY KEY, uuid STRING);",
];
const DDL_0_9: &[&str] = &[
    r#"ALTER TABLE operations ADD COLUMN uuid GENERATED ALWAYS AS (
                coalesce(json_extract(data, "$.Update.uuid"),
                         json_extract(data, "$.Create.uuid"),
                         json_extract(data, "$.Delete.uuid"))) VIRTUAL"#,
    "CREATE INDEX operations_by_uuid ON operations (uuid)",
    "ALTER TABLE operations ADD COLUMN synced bool DEFAULT false",
    "CREATE INDEX operations_by_synced ON operations (synced)",
];
const DDL_VERSION: &str = "CREATE TABLE IF NOT EXISTS version (singleton INTEGER PRIMARY KEY CHECK (singleton = 0), major INTEGER, minor INTEGER)";
const DDL_0_2: &[&str] = &[
    "DROP INDEX operations_by_uuid",
    "ALTER TABLE operations DROP COLUMN uuid",
    r#"ALTER TABLE operations ADD COLUMN uuid GENERATED ALWAYS AS (
                coalesce(json_extract(data, '$.Update.uuid'),
                         json_extract(data, '$.Create.uuid'),
                         json_extract(data, '$.Delete.uuid'))) VIRTUAL"#,
    "CREATE INDEX operations_by_uuid ON operations (uuid)",
];

/// Build a database file as an older TaskChampion would have left it, holding `st`.
fn build_legacy_db(dir: &Path, legacy: u8, st: &StoreState, synced_ops: &[Operation]) -> Result<(), String> {
    let e = |e: rusqlite::Error| e.to_string();
    let con = rusqlite::Connection::open(dir.join("taskchampion.sqlite3")).map_err(e)?;
    con.query_row("PRAGMA journal_mode=WAL", [], |_| Ok(())).map_err(e)?;
    for q in DDL_0_8 {
        con.execute(q, []).map_err(e)?;
    }
    if legacy >= 2 {
        for q in DDL_0_9 {
            con.execute(q, []).map_err(e)?;
        }
    }
    if legacy >= 3 {
        con.execute(DDL_VERSION, []).map_err(e)?;
        con.execute("INSERT INTO version (singleton, major, minor) VALUES (0, 0, 1)", []).map_err(e)?;
    }
    if legacy >= 4 {
        for q in DDL_0_2 {
            con.execute(q, []).map_err(e)?;
        }
        con.execute("UPDATE version SET major=0, minor=2", []).map_err(e)?;
    }
    for (u, p) in &st.tasks {
        let data = serde_json::to_string(p).unwrap();
        con.execute("INSERT INTO tasks (uuid, data) VALUES (?, ?)", rusqlite::params![u.to_string(), data]).map_err(e)?;
    }
    if legacy >= 2 {
        for op in synced_ops {
            con.execute("INSERT INTO operations (data, synced) VALUES (?, true)", rusqlite::params![serde_json::to_string(op).unwrap()]).map_err(e)?;
        }
    }
    for op in &st.unsynced {
        con.execute("INSERT INTO operations (data) VALUES (?)", rusqlite::params![serde_json::to_string(op).unwrap()]).map_err(e)?;
    }
    if !st.base_version.is_nil() {
        con.execute("INSERT INTO sync_meta (key, value) VALUES ('base_version', ?)", rusqlite::params![st.base_version.to_string()]).map_err(e)?;
    }
    for (i, u) in st.working_set.iter().enumerate() {
        if let Some(u) = u {
            con.execute("INSERT INTO working_set (id, uuid) VALUES (?, ?)", rusqlite::params![i as i64, u.to_string()]).map_err(e)?;
        }
    }
    Ok(())
}

struct Diff {
    violations: Vec<Violation>,
    probes: BTreeMap<String, u64>,
    log: Vec<String>,
    want_log: bool,
    trace: Fnv,
}
impl Diff {
    fn v(&mut self, oracle: &str, sig: &str, detail: String) {
        if self.want_log {
            self.log.push(format!("VIOLATION {oracle}|{sig}: {detail}"));
        }
        self.violations.push(Violation { oracle: oracle.into(), sig: sig.into(), detail });
    }
    fn probe(&mut self, k: &str) {
        *self.probes.entry(k.into()).or_insert(0) += 1;
    }
}

fn call_name(c: &StCall) -> &'static str {
    match c {
        StCall::GetTask(_) => "get_task",
        StCall::GetPending => "get_pending_tasks",
        StCall::Create(_) => "create_task",
        StCall::SetTask(..) => "set_task",
        StCall::Delete(_) => "delete_task",
        StCall::AllTasks => "all_tasks",
        StCall::AllUuids => "all_task_uuids",
        StCall::BaseVersion => "base_version",
        StCall::SetBase(_) => "set_base_version",
        StCall::TaskOps(_) => "get_task_operations",
        StCall::Unsynced => "unsynced_operations",
        StCall::NumUnsynced => "num_unsynced_operations",
        StCall::AddOp { .. } => "add_operation",
        StCall::RemoveOp { .. } => "remove_operation",
        StCall::SyncComplete => "sync_complete",
        StCall::GetWs => "get_working_set",
        StCall::AddWs(_) => "add_to_working_set",
        StCall::SetWsItem(..) => "set_working_set_item",
        StCall::ClearWs => "clear_working_set",
        StCall::IsEmpty => "is_empty",
    }
}

async fn open_sqlite(dir: &Path, mode: AccessMode) -> Result<SqliteStorage, String> {
    SqliteStorage::new(dir, mode, true).await.map_err(|e| format!("{e:#}"))
}

/// run one transaction script on both storages, comparing every result
async fn run_txn(d: &mut Diff, mem: &mut InMemoryStorage, sq: &mut SqliteStorage, t: &TxnScript, label: &str) {
    let (mut tm, mut ts) = match (mem.txn().await, sq.txn().await) {
        (Ok(a), Ok(b)) => (a, b),
        (a, b) => {
            d.v("storage.diff", "txn", format!("{label}: txn() disagreed: in-memory ok={} sqlite ok={}", a.is_ok(), b.is_ok()));
            return;
        }
    };
    for (i, c) in t.calls.iter().enumerate() {
        let a = do_call(tm.as_mut(), c).await;
        let b = do_call(ts.as_mut(), c).await;
        d.trace.write_str(call_name(c));
        d.trace.write_u64(matches!(a, Ret::Err) as u64);
        d.probe("calls");
        if a != b {
            d.v("storage.diff", call_name(c), format!("{label} call #{i} {c:?}: in-memory returned {a:?}, SQLite returned {b:?}"));
            return;
        }
        if d.want_log {
            d.log.push(format!("{label} #{i} {c:?} -> {a:?}"));
        }
    }
    if t.commit {
        let a = tm.commit().await.is_ok();
        let b = ts.commit().await.is_ok();
        if a != b {
            d.v("storage.diff", "commit", format!("{label}: commit: in-memory ok={a}, SQLite ok={b}"));
        }
        d.probe("txn.committed");
    } else {
        d.probe("txn.abandoned");
    }
    drop(tm);
    drop(ts);
}

pub fn run_c16(scv: &Value, want_log: bool) -> RunResult {
    let sc: ScC16 = match serde_json::from_value(scv.clone()) {
        Ok(s) => s,
        Err(e) => return RunResult { violations: vec![Violation { oracle: "harness".into(), sig: "bad-scenario".into(), detail: e.to_string() }], ..Default::default() },
    };
    let dir = run_dir("c16", sc.seed);
    let _guard = DirGuard(dir.clone());
    let mut d = Diff { violations: vec![], probes: BTreeMap::new(), log: vec![], want_log, trace: Fnv::default() };
    block_on(async {
        let mut mem = InMemoryStorage::new();
        // prefill: build a state in memory (and, for a fresh database, in SQLite alike)
        let mut sq = if sc.legacy == 0 {
            match open_sqlite(&dir, AccessMode::ReadWrite).await {
                Ok(mut s) => {
                    for (k, t) in sc.prefill.iter().enumerate() {
                        run_txn(&mut d, &mut mem, &mut s, t, &format!("prefill{k}")).await;
                    }
                    s
                }
                Err(e) => {
                    d.v("storage.open", "fresh", format!("cannot open a fresh SQLite store: {e}"));
                    return;
                }
            }
        } else {
            // run the prefill on the in-memory store only, then write its contents into a database
            // laid out by the historical DDL and let SqliteStorage upgrade it on open
            for t in &sc.prefill {
                if let Ok(mut tm) = mem.txn().await {
                    for c in &t.calls {
                        // synced operations cannot be represented before 0.9: keep everything unsynced there
                        if sc.legacy == 1 && matches!(c, StCall::SyncComplete) {
                            continue;
                        }
                        let _ = do_call(tm.as_mut(), c).await;
                    }
                    if t.commit {
                        let _ = tm.commit().await;
                    }
                }
            }
            let st = match read_state(&mut mem).await {
                Ok(s) => s,
                Err(_) => return,
            };
            // per-task logs of synced operations cannot be listed through the API without uuids;
            // rebuild: ops = all task operations minus the unsynced ones, per task in order
            let mut synced: Vec<Operation> = Vec::new();
            if let Ok(mut tm) = mem.txn().await {
                for t in 0..8u8 {
                    if let Ok(ops) = tm.get_task_operations(task_uuid(t)).await {
                        let uns: Vec<&Operation> = st.unsynced.iter().filter(|o| o.get_uuid() == Some(task_uuid(t))).collect();
                        let n_synced = ops.len().saturating_sub(uns.len());
                        synced.extend(ops.into_iter().take(n_synced));
                    }
                }
            }
            if let Err(e) = build_legacy_db(&dir, sc.legacy, &st, &synced) {
                d.v("harness", "legacy-build", format!("cannot build legacy database: {e}"));
                return;
            }
            d.probe(&format!("legacy.schema{}", sc.legacy));
            match open_sqlite(&dir, AccessMode::ReadWrite).await {
                Ok(s) => s,
                Err(e) => {
                    d.v("storage.upgrade", &format!("open-legacy{}", sc.legacy), format!("opening a database created under historical schema #{} failed: {e}", sc.legacy));
                    return;
                }
            }
        };
        if !d.violations.is_empty() {
            return;
        }
        // contents after (upgrade-on-)open
        let cmp = |d: &mut Diff, a: Result<StoreState, taskchampion::Error>, b: Result<StoreState, taskchampion::Error>, what: &str| match (a, b) {
            (Ok(a), Ok(b)) => {
                let (a, b) = (canon_state(a), canon_state(b));
                if a != b {
                    d.v("storage.state", what, format!("{what}: visible contents differ\n  in-memory: {a:?}\n  SQLite:    {b:?}"));
                }
            }
            (a, b) => d.v("storage.state", what, format!("{what}: reading failed: in-memory ok={} sqlite ok={}", a.is_ok(), b.is_ok())),
        };
        let (a, b) = (read_state(&mut mem).await, read_state(&mut sq).await);
        cmp(&mut d, a, b, if sc.legacy == 0 { "after-prefill" } else { "after-upgrade" });
        if sc.legacy != 0 {
            // per-task operation logs survive the upgrade too
            if let (Ok(mut tm), Ok(mut ts)) = (mem.txn().await, sq.txn().await) {
                for t in 0..8u8 {
                    let a = do_call(tm.as_mut(), &StCall::TaskOps(t)).await;
                    let b = do_call(ts.as_mut(), &StCall::TaskOps(t)).await;
                    if a != b {
                        d.v("storage.upgrade", "task-operations", format!("task operations of T{t} after upgrade: in-memory {a:?}, SQLite {b:?}"));
                    }
                }
            }
        }
        for (k, t) in sc.txns.iter().enumerate() {
            if !d.violations.is_empty() {
                return;
            }
            run_txn(&mut d, &mut mem, &mut sq, t, &format!("txn{k}")).await;
            let (a, b) = (read_state(&mut mem).await, read_state(&mut sq).await);
            cmp(&mut d, a, b, if t.commit { "after-commit" } else { "after-abandon" });
            if t.reopen_after {
                drop(sq);
                sq = match open_sqlite(&dir, AccessMode::ReadWrite).await {
                    Ok(s) => s,
                    Err(e) => {
                        d.v("storage.open", "reopen", format!("reopening the store failed: {e}"));
                        return;
                    }
                };
                d.probe("reopen");
                let (a, b) = (read_state(&mut mem).await, read_state(&mut sq).await);
                cmp(&mut d, a, b, "after-reopen");
            }
        }
        if !d.violations.is_empty() {
            return;
        }
        // read-only reopen: same data, every modification refused
        drop(sq);
        let mut ro = match open_sqlite(&dir, AccessMode::ReadOnly).await {
            Ok(s) => s,
            Err(e) => {
                d.v("storage.open", "read-only", format!("opening read-only failed: {e}"));
                return;
            }
        };
        let (a, b) = (read_state(&mut mem).await, read_state(&mut ro).await);
        cmp(&mut d, a, b, "read-only");
        let muts = [
            StCall::Create(7),
            StCall::SetTask(0, vec![("k".into(), "v".into())]),
            StCall::Delete(0),
            StCall::SetBase(3),
            StCall::AddOp { kind: 0, t: 1, p: 0, val: None },
            StCall::RemoveOp { wrong: false },
            StCall::SyncComplete,
            StCall::AddWs(1),
            StCall::SetWsItem(0, None),
            StCall::ClearWs,
        ];
        for c in &muts {
            if let Ok(mut t) = ro.txn().await {
                let r = do_call(t.as_mut(), c).await;
                if !matches!(r, Ret::Err | Ret::Skipped) {
                    d.v("storage.readonly", call_name(c), format!("a store opened read-only accepted {c:?} (returned {r:?})"));
                }
                if t.commit().await.is_ok() {
                    d.v("storage.readonly", "commit", "a store opened read-only accepted commit".to_string());
                }
            }
            d.probe("readonly.mutators_refused");
        }
        let (a, b) = (read_state(&mut mem).await, read_state(&mut ro).await);
        cmp(&mut d, a, b, "read-only-after-attempts");
    });
    let nontrivial = d.probes.get("txn.committed").copied().unwrap_or(0) > 0;
    let mut sh = Fnv::default();
    sh.write_u64(d.probes.get("calls").copied().unwrap_or(0));
    RunResult { violations: d.violations, trace_hash: d.trace.0, state_hash: d.trace.0 ^ sh.0, fired: BTreeMap::new(), probes: d.probes, points: BTreeMap::new(), sim_seconds: 0.0, steps: 0, nontrivial, evals: 1, log: d.log }
}

const VALS: &[&str] = &["", "x", "pending", "with \"quotes\"", "uni ☃ \u{1F600}", "nul\u{0}in", "{\"j\":1}", "123", "1e5", "  sp  ", "line\nbreak"];
const KEYS: &[&str] = &["status", "description", "p0", "k\u{e9}y", "\"", "a.b", "", "123"];

fn gen_txn(rng: &mut Rng, max_calls: usize) -> TxnScript {
    let n = rng.usize_below(max_calls + 1);
    let mut calls = Vec::new();
    for _ in 0..n {
        let t = rng.below(5) as u8;
        let c = match rng.below(30) {
            0 => StCall::GetTask(t),
            1 => StCall::GetPending,
            2..=4 => StCall::Create(t),
            5..=7 => {
                let k = rng.usize_below(4);
                let mut kv = BTreeMap::new();
                for _ in 0..k {
                    kv.insert(rng.pick(KEYS).to_string(), rng.pick(VALS).to_string());
                }
                StCall::SetTask(t, kv.into_iter().collect())
            }
            8..=9 => StCall::Delete(t),
            10 => StCall::AllTasks,
            11 => StCall::AllUuids,
            12 => StCall::BaseVersion,
            13 => StCall::SetBase(rng.below(4) as u8),
            14 => StCall::TaskOps(t),
            15 => StCall::Unsynced,
            16 => StCall::NumUnsynced,
            17..=20 => StCall::AddOp { kind: rng.below(24) as u8, t, p: rng.below(3) as u8, val: if rng.chance(1, 4) { None } else { Some(rng.pick(VALS).to_string()) } },
            21 => StCall::RemoveOp { wrong: rng.chance(1, 4) },
            22 => StCall::SyncComplete,
            23 => StCall::GetWs,
            24..=26 => StCall::AddWs(t),
            27 => StCall::SetWsItem(rng.below(8) as u8, if rng.chance(1, 2) { None } else { Some(t) }),
            28 => StCall::ClearWs,
            _ => StCall::IsEmpty,
        };
        calls.push(c);
    }
    TxnScript { calls, commit: rng.chance(3, 4), reopen_after: rng.chance(1, 6) }
}

/// a transaction built from fragments that belong together (a task's life), so that sequences
/// such as create / log operations / sync / delete / sync / read log occur often
fn gen_story_txn(rng: &mut Rng) -> TxnScript {
    let mut calls = Vec::new();
    for _ in 0..1 + rng.usize_below(3) {
        let t = rng.below(3) as u8;
        match rng.below(8) {
            0..=1 => {
                calls.push(StCall::Create(t));
                calls.push(StCall::AddOp { kind: 0, t, p: 0, val: None });
                if rng.chance(1, 2) {
                    calls.push(StCall::SetTask(t, vec![("status".into(), "pending".into())]));
                    calls.push(StCall::AddOp { kind: 2, t, p: rng.below(3) as u8, val: Some("x".into()) });
                }
                if rng.chance(1, 2) {
                    calls.push(StCall::AddWs(t));
                }
            }
            2 => calls.push(StCall::SyncComplete),
            3 => {
                calls.push(StCall::Delete(t));
                if rng.chance(1, 2) {
                    calls.push(StCall::AddOp { kind: 1 + 4 * rng.below(6) as u8, t, p: 0, val: None });
                    if rng.chance(1, 3) {
                        // undo-like: take the logged operation back (as read from the store)
                        calls.push(StCall::RemoveOp { wrong: false });
                        calls.push(StCall::Unsynced);
                    }
                }
            }
            4 => calls.push(StCall::AddOp { kind: rng.below(24) as u8, t, p: rng.below(3) as u8, val: Some("y".into()) }),
            5 => {
                calls.push(StCall::TaskOps(t));
                calls.push(StCall::GetTask(t));
            }
            6 => {
                calls.push(StCall::GetWs);
                calls.push(StCall::GetPending);
                calls.push(StCall::Unsynced);
            }
            _ => calls.push(StCall::SetWsItem(rng.below(8) as u8, if rng.chance(1, 2) { None } else { Some(t) })),
        }
    }
    TxnScript { calls, commit: rng.chance(7, 8), reopen_after: rng.chance(1, 8) }
}

pub fn gen_c16(seed: u64, i: u64, _thorough: bool) -> Value {
    let s = mix(seed, "C16", i);
    let mut rng = Rng::new(s);
    if rng.chance(1, 2) {
        let legacy = if rng.chance(1, 5) { 2 + rng.below(3) as u8 } else { 0 };
        let prefill = (0..rng.usize_below(3)).map(|_| { let mut t = gen_story_txn(&mut rng); t.commit = true; t.reopen_after = false; t }).collect();
        let mut txns: Vec<TxnScript> = (0..3 + rng.usize_below(6)).map(|_| gen_story_txn(&mut rng)).collect();
        // finish by reading every task's operation log
        txns.push(TxnScript { calls: (0..3).map(StCall::TaskOps).chain([StCall::Unsynced, StCall::GetWs, StCall::AllTasks]).collect(), commit: false, reopen_after: false });
        return serde_json::to_value(ScC16 { check: "C16".into(), seed: s, legacy, prefill, txns }).unwrap();
    }
    let legacy = if rng.chance(1, 4) { 1 + rng.below(4) as u8 } else { 0 };
    let prefill = (0..rng.usize_below(3)).map(|_| { let mut t = gen_txn(&mut rng, 8); t.commit = true; t.reopen_after = false; t }).collect();
    let txns = (0..1 + rng.usize_below(5)).map(|_| gen_txn(&mut rng, 10)).collect();
    serde_json::to_value(ScC16 { check: "C16".into(), seed: s, legacy, prefill, txns }).unwrap()
}

pub fn shrink_c16(scv: &Value) -> Vec<Value> {
    let Ok(sc) = serde_json::from_value::<ScC16>(scv.clone()) else { return vec![] };
    let mut out = Vec::new();
    if sc.legacy != 0 {
        let mut c = sc.clone();
        c.legacy = 0;
        out.push(c);
    }
    for (which, list) in [(0, &sc.prefill), (1, &sc.txns)] {
        for k in 0..list.len() {
            let mut c = sc.clone();
            if which == 0 { c.prefill.remove(k); } else { c.txns.remove(k); }
            out.push(c);
        }
        for k in 0..list.len() {
            for j in 0..list[k].calls.len() {
                let mut c = sc.clone();
                if which == 0 { c.prefill[k].calls.remove(j); } else { c.txns[k].calls.remove(j); }
                out.push(c);
            }
            if list[k].reopen_after {
                let mut c = sc.clone();
                if which == 0 { c.prefill[k].reopen_after = false; } else { c.txns[k].reopen_after = false; }
                out.push(c);
            }
        }
    }
    out.into_iter().map(|s| serde_json::to_value(s).unwrap()).collect()
}

pub fn checks() -> Vec<CheckDef> {
    vec![
    CheckDef {
        id: "C17",
        level: "exploration",
        runs_quick: 4_000,
        runs_thorough: 300_000,
        rule: "2-8 Replicas, each over its own SqliteStorage handle (own actor thread and connection; in a quarter of the runs each handle is a process of its own, `tcsim handle17`, stepped by the scheduler over pipes, so that the handles share nothing but the database files and their fcntl locks) on the same directory, run scripts of commits (operations built through the TaskData API from reads made in earlier transactions), undo, working-set rebuilds and reads; every storage call of every handle is a scheduling point of the seeded scheduler, which also issues BEGINs while another handle holds the write lock (the BEGIN then really blocks in SQLite's busy handler until the holder is scheduled through its commit; never two waiters). Whether a request blocks is observed, not assumed: after issuing it the executor waits for exactly one of two events, its reply or a busy-handler sleep of an actor thread (nanosleep is interposed), so a request that blocks anywhere (not only in BEGIN) parks its handle until the other handles have left their transactions. Audit through a fresh handle: the stored operation log equals the concatenation of the successful commits in the order their storage commits returned, an undo only succeeded on the then most recent operations, the stored tasks equal the one-at-a-time application of those commits, no working-set entry is duplicated. Non-trivial: commits of different handles alternated; distinct = distinct trace hash.",
        gen: gen_c17,
        run: run_c17,
        shrink: shrink_c17,
        real: &["taskchampion::Replica", "taskdb::*", "storage::sqlite", "storage::send_wrapper (one actor thread per handle)", "rusqlite + bundled SQLite file locking on tmpfs"],
        stub: &[],
        assumptions: &["three quarters of the runs keep all handles in one process (each with its own connection and thread), one quarter give every handle its own process; in both only one handle executes at a time, apart from one handle waiting for the database lock", "a blocked BEGIN that times out (5 s real time) makes the operation fail; the oracle then requires it to be absent, so timing can change a log but not raise an alarm"],
    },
    CheckDef {
        id: "C16",
        level: "exploration",
        runs_quick: 12_000,
        runs_thorough: 1_500_000,
        rule: "one seeded sequence of StorageTxn calls respecting the documented contract (tasks with arbitrary Unicode keys/values, operations, base version, working set, sync_complete, is_empty; commit or abandon; close/reopen of the SQLite side at seeded points) is applied to InMemoryStorage and to SqliteStorage and every return value is compared (collections without regard to order, errors as errors), plus the full visible state after every commit/abandon/reopen; in a quarter of the runs the SQLite database is first written by the harness with the historical DDL of 0.8 / 0.9 / (0,1) / (0,2), populated, and must read back identically after upgrade-on-open (incl. per-task operation logs); finally the store is reopened read-only: same contents, every mutator and commit refused. Non-trivial: at least one transaction committed; distinct = distinct hash of the (call, ok/err) trace.",
        gen: gen_c16,
        run: run_c16,
        shrink: shrink_c16,
        real: &["storage::sqlite::{SqliteStorage, inner, schema}", "storage::send_wrapper (actor thread)", "rusqlite + bundled SQLite on tmpfs", "storage::inmemory::InMemoryStorage"],
        stub: &[],
        assumptions: &["the call sequence respects the documented storage contract (no set_working_set_item at 0 or beyond the end, remove_operation of the last unsynchronized operation or a deliberately non-matching one, no calls after commit)", "trailing empty working-set slots are not observable (both stores trim them at different moments)"],
    },
    ]
}

// ================================================================================================
// C17: concurrent handles on one SQLite replica directory
// ================================================================================================

use crate::exec::{self, begin_action, yield_point, Ctx, NodeFut, PollOutcome};
use crate::fam_a::{build_ops, Intent};
use crate::simstorage::SimStorage;
use std::cell::RefCell;
use std::rc::Rc;
use taskchampion::{Operations, Replica};

#[derive(Serialize, Deserialize, Clone, Debug, PartialEq)]
pub enum Act17 {
    Commit(Vec<Intent>),
    Undo,
    Rebuild(bool),
    Read,
}

#[derive(Serialize, Deserialize, Clone, Debug)]
pub struct Sc17 {
    pub check: String,
    pub seed: u64,
    pub nodes: usize,
    pub scripts: Vec<Vec<Act17>>,
    pub sched_seed: u64,
    /// probability (per mille) of issuing a BEGIN while another handle holds the write lock
    pub contention: u32,
    /// every handle lives in a process of its own (`tcsim handle17`), stepped over pipes
    #[serde(default)]
    pub procs: bool,
}

#[derive(Clone, Debug, Serialize, Deserialize)]
enum Done17 {
    Commit { ops: Operations, ok: bool },
    Undo { ops: Operations, result: Option<bool> },
}

struct W17 {
    sc: Sc17,
    dir: PathBuf,
    /// (linearization sequence number, node, what) for every action that committed something
    done: Vec<(Option<usize>, usize, usize, Done17)>,
    violations: Vec<Violation>,
    probes: BTreeMap<String, u64>,
    log: Vec<String>,
    want_log: bool,
}

fn my_commits(n: usize) -> Vec<usize> {
    exec::with_ctx(|c| c.commit_log.iter().enumerate().filter(|(_, x)| **x == n).map(|(i, _)| i).collect()).unwrap_or_default()
}

fn node17(n: usize, w: Rc<RefCell<W17>>) -> NodeFut {
    Box::pin(async move {
        let dir = w.borrow().dir.clone();
        let st = match SqliteStorage::new(&dir, AccessMode::ReadWrite, true).await {
            Ok(s) => s,
            Err(e) => {
                w.borrow_mut().violations.push(Violation { oracle: "storage.open".into(), sig: "c17".into(), detail: format!("node {n}: {e:#}") });
                return;
            }
        };
        let mut replica = Replica::new(SimStorage::sqlite(st, true));
        let script = w.borrow().sc.scripts[n].clone();
        for (a, act) in script.iter().enumerate() {
            begin_action(a);
            let _ = yield_point("act").await;
            let c0 = my_commits(n).len();
            match act {
                Act17::Commit(intents) => {
                    let Some(ops) = build_ops(n, a, &mut replica, intents, crate::interpose::now_ns(), 0, 0).await else { continue };
                    if ops.is_empty() {
                        continue;
                    }
                    let r = replica.commit_operations(ops.clone()).await;
                    let seq = my_commits(n).get(c0).copied();
                    let mut wb = w.borrow_mut();
                    if r.is_ok() != seq.is_some() {
                        wb.violations.push(Violation { oracle: "c17.result".into(), sig: "commit".into(), detail: format!("node {n} action {a}: commit_operations returned {:?} but the storage commit {}", r.as_ref().map_err(|e| e.to_string()), if seq.is_some() { "succeeded" } else { "did not happen" }) });
                    }
                    if r.is_err() {
                        *wb.probes.entry("commit.failed".into()).or_insert(0) += 1;
                    }
                    if wb.want_log {
                        wb.log.push(format!("n{n} a{a} commit {} ops -> {:?} seq {:?}", ops.len(), r.as_ref().map_err(|e| e.to_string()), seq));
                    }
                    wb.done.push((seq, n, a, Done17::Commit { ops, ok: r.is_ok() }));
                }
                Act17::Undo => {
                    let Ok(ops) = replica.get_undo_operations().await else { continue };
                    let r = replica.commit_reversed_operations(ops.clone()).await;
                    let seq = my_commits(n).get(c0).copied();
                    let mut wb = w.borrow_mut();
                    if wb.want_log {
                        wb.log.push(format!("n{n} a{a} undo {} ops -> {:?} seq {:?}", ops.len(), r.as_ref().map_err(|e| e.to_string()), seq));
                    }
                    if matches!(r, Ok(true)) {
                        *wb.probes.entry("undo.ok".into()).or_insert(0) += 1;
                    }
                    wb.done.push((seq, n, a, Done17::Undo { ops, result: r.ok() }));
                }
                Act17::Rebuild(renumber) => {
                    let _ = replica.rebuild_working_set(*renumber).await;
                }
                Act17::Read => {
                    let _ = replica.all_task_data().await;
                    let _ = replica.working_set().await;
                    let _ = replica.pending_task_data().await;
                }
            }
        }
    })
}

// ---- handles in processes of their own ------------------------------------------------------------
// `tcsim handle17` runs one handle's script under its own executor and is stepped by the parent
// through its stdin/stdout: "S <now>" = step (report a lock wait instead of waiting), "W <now>" =
// step and wait. After each step it reports where it parked, how many of its commits returned
// and what its finished actions did. The parent's scheduler is the same as for in-process handles.

#[derive(Serialize, Deserialize)]
struct Init17 {
    sc: Sc17,
    node: usize,
    dir: String,
    want_log: bool,
}

#[derive(Serialize, Deserialize, Default)]
struct Reply17 {
    /// "parked:<label>", "done", "blocked", "crashed"
    out: String,
    commits: usize,
    done: Vec<(Option<usize>, usize, usize, Done17)>,
    violations: Vec<Violation>,
    probes: BTreeMap<String, u64>,
    log: Vec<String>,
    trace: u64,
    points: BTreeMap<String, u64>,
}

struct Proc17 {
    child: std::process::Child,
    stdin: std::process::ChildStdin,
    stdout: std::io::BufReader<std::process::ChildStdout>,
}

impl Drop for Proc17 {
    fn drop(&mut self) {
        let _ = self.child.kill();
        let _ = self.child.wait();
    }
}

fn label17(l: &str) -> &'static str {
    // the scheduler only distinguishes these
    match l {
        "st.txn" => "st.txn",
        "act" => "act",
        _ => "st.other",
    }
}

impl Proc17 {
    fn spawn(sc: &Sc17, node: usize, dir: &Path, want_log: bool) -> Option<Proc17> {
        use std::io::Write;
        let exe = std::env::current_exe().ok()?;
        let mut child = std::process::Command::new(exe)
            .arg("handle17")
            .stdin(std::process::Stdio::piped())
            .stdout(std::process::Stdio::piped())
            .stderr(if std::env::var_os("TCSIM_TRACE17").is_some() { std::process::Stdio::inherit() } else { std::process::Stdio::null() })
            .spawn()
            .ok()?;
        let mut stdin = child.stdin.take()?;
        let stdout = std::io::BufReader::new(child.stdout.take()?);
        let init = Init17 { sc: sc.clone(), node, dir: dir.to_string_lossy().into_owned(), want_log };
        writeln!(stdin, "{}", serde_json::to_string(&init).ok()?).ok()?;
        Some(Proc17 { child, stdin, stdout })
    }

    fn step(&mut self, node: usize, wait: bool, now: i64, w: &Rc<RefCell<W17>>, node_commits: &mut [Vec<usize>], node_trace: &mut [u64]) -> Option<PollOutcome> {
        use std::io::{BufRead, Write};
        writeln!(self.stdin, "{} {}", if wait { "W" } else { "S" }, now).ok()?;
        self.stdin.flush().ok()?;
        let mut line = String::new();
        if self.stdout.read_line(&mut line).ok()? == 0 {
            return None;
        }
        let r: Reply17 = serde_json::from_str(&line).ok()?;
        node_trace[node] = r.trace;
        exec::with_ctx(|c| {
            for _ in 0..r.commits {
                node_commits[node].push(c.commit_log.len());
                c.commit_log.push(node);
            }
            for (k, v) in &r.points {
                // labels are static strings in the executor; count under the scheduler's names
                *c.points.entry(label17(k)).or_insert(0) += *v;
            }
        });
        let mut wb = w.borrow_mut();
        wb.done.extend(r.done);
        wb.violations.extend(r.violations);
        for (k, v) in r.probes {
            *wb.probes.entry(k).or_insert(0) += v;
        }
        wb.log.extend(r.log);
        Some(match r.out.as_str() {
            "done" => PollOutcome::Done,
            "blocked" => PollOutcome::Blocked,
            "crashed" => PollOutcome::Crashed,
            o => PollOutcome::Parked(label17(o.strip_prefix("parked:")?)),
        })
    }
}

/// `tcsim handle17`: one storage handle of a C17 run, stepped by the parent process.
pub fn handle17_main() -> i32 {
    use std::io::{BufRead, Write};
    let stdin = std::io::stdin();
    let mut lines = stdin.lock().lines();
    let Some(Ok(first)) = lines.next() else { return 2 };
    let Ok(init) = serde_json::from_str::<Init17>(&first) else { return 2 };
    let n = init.node;
    crate::interpose::activate(mix(init.sc.seed, "handle17", n as u64), crate::interpose::EPOCH0);
    exec::install(Ctx::new(init.sc.nodes));
    let w = Rc::new(RefCell::new(W17 { sc: init.sc.clone(), dir: PathBuf::from(&init.dir), done: vec![], violations: vec![], probes: BTreeMap::new(), log: vec![], want_log: init.want_log }));
    let mut fut: Option<NodeFut> = Some(node17(n, w.clone()));
    let mut commits_seen = 0usize;
    let stdout = std::io::stdout();
    for line in lines {
        let Ok(line) = line else { break };
        let mut it = line.split_whitespace();
        let (Some(cmd), Some(now)) = (it.next(), it.next().and_then(|x| x.parse::<i64>().ok())) else { return 2 };
        crate::interpose::set_now_ns(now);
        let Some(f) = fut.as_mut() else { break };
        let out = if cmd == "W" { exec::step(n, f) } else { exec::step_nowait(n, f) };
        let mut r = Reply17::default();
        r.out = match &out {
            PollOutcome::Parked(l) => format!("parked:{l}"),
            PollOutcome::Done => "done".into(),
            PollOutcome::Blocked => "blocked".into(),
            PollOutcome::Crashed => "crashed".into(),
        };
        exec::with_ctx(|c| {
            r.commits = c.commit_log.len() - commits_seen;
            commits_seen = c.commit_log.len();
            r.trace = c.trace.0;
            r.points = std::mem::take(&mut c.points).into_iter().map(|(k, v)| (k.to_string(), v)).collect();
        });
        {
            let mut wb = w.borrow_mut();
            r.done = std::mem::take(&mut wb.done);
            r.violations = std::mem::take(&mut wb.violations);
            r.probes = std::mem::take(&mut wb.probes);
            r.log = std::mem::take(&mut wb.log);
        }
        let finished = matches!(out, PollOutcome::Done | PollOutcome::Crashed);
        if finished {
            // close the connection (and let the actor thread finish) before reporting
            fut = None;
        }
        let mut so = stdout.lock();
        if writeln!(so, "{}", serde_json::to_string(&r).unwrap_or_default()).is_err() || so.flush().is_err() {
            break;
        }
        if finished {
            break;
        }
    }
    0
}

pub fn run_c17(scv: &Value, want_log: bool) -> RunResult {
    let sc: Sc17 = match serde_json::from_value(scv.clone()) {
        Ok(s) => s,
        Err(e) => return RunResult { violations: vec![Violation { oracle: "harness".into(), sig: "bad-scenario".into(), detail: e.to_string() }], ..Default::default() },
    };
    let n = sc.nodes;
    let dir = run_dir("c17", sc.seed);
    let _guard = DirGuard(dir.clone());
    exec::install(Ctx::new(n));
    crate::interpose::set_now_ns(crate::interpose::EPOCH0 * 1_000_000_000);
    // create the database before the handles race to do so (schema creation is not the subject)
    let _ = block_on(async { SqliteStorage::new(&dir, AccessMode::ReadWrite, true).await.map(|_| ()) });
    let w = Rc::new(RefCell::new(W17 { sc: sc.clone(), dir: dir.clone(), done: vec![], violations: vec![], probes: BTreeMap::new(), log: vec![], want_log }));
    let mut nodes: Vec<Option<NodeFut>> = if sc.procs { (0..n).map(|_| None).collect() } else { (0..n).map(|i| Some(node17(i, w.clone()))).collect() };
    let mut procs: Vec<Option<Proc17>> = Vec::new();
    if sc.procs {
        for i in 0..n {
            match Proc17::spawn(&sc, i, &dir, want_log) {
                Some(p) => procs.push(Some(p)),
                None => {
                    return RunResult { violations: vec![Violation { oracle: "harness".into(), sig: "handle-spawn".into(), detail: "cannot start a handle process".into() }], ..Default::default() };
                }
            }
        }
        *w.borrow_mut().probes.entry("handles_in_separate_processes".into()).or_insert(0) += 1;
    }
    let mut node_commits: Vec<Vec<usize>> = vec![Vec::new(); n];
    let mut died = false;
    let mut node_trace: Vec<u64> = vec![0; n];
    let mut parked: Vec<Option<&'static str>> = vec![None; n];
    let mut in_txn = vec![false; n];
    let mut blocked: Option<usize> = None;
    let mut rng = Rng::new(sc.sched_seed);
    let mut steps = 0u64;
    let mut sched_hash = Fnv::default();
    let mut now = crate::interpose::EPOCH0 * 1_000_000_000;
    loop {
        let runnable: Vec<usize> = (0..n).filter(|i| nodes[*i].is_some() || procs.get(*i).map_or(false, |p| p.is_some())).collect();
        if runnable.is_empty() {
            break;
        }
        steps += 1;
        if steps > 100_000 {
            w.borrow_mut().violations.push(Violation { oracle: "liveness".into(), sig: "c17-steps".into(), detail: "handles did not finish within 100000 steps".into() });
            break;
        }
        let holder = (0..n).find(|i| in_txn[*i] && blocked != Some(*i));
        let (pick, nowait) = if let (Some(b), None) = (blocked, holder) {
            // the lock is free again: the waiting handle goes first (two waiters would be
            // ordered by SQLite's real-time back-off, which the simulator does not own)
            (b, false)
        } else {
            let mut cand: Vec<(usize, bool)> = Vec::new();
            for &i in &runnable {
                if Some(i) == blocked {
                    continue;
                }
                let wants_lock = parked[i] == Some("st.txn");
                if wants_lock && holder.is_some() && holder != Some(i) {
                    // issuing this BEGIN now will really block inside SQLite until the holder is
                    // scheduled through the end of its transaction
                    if blocked.is_none() && rng.below(1000) < sc.contention as u64 {
                        cand.push((i, true));
                    }
                } else {
                    cand.push((i, false));
                }
            }
            if cand.is_empty() {
                // only possible if the holder finished; fall back to anyone
                (runnable[0], false)
            } else {
                cand[rng.usize_below(cand.len())]
            }
        };
        sched_hash.write_u64(pick as u64);
        now += 1_000_000_000;
        crate::interpose::set_now_ns(now);
        // while no handle is waiting for a lock, every step detects a wait deterministically (a
        // BEGIN issued under contention is expected to block; any other request that blocks is
        // handled the same way); while one waits, the others are stepped to completion
        let _ = nowait;
        let mut do_step = |wait: bool| -> PollOutcome {
            if sc.procs {
                match procs[pick].as_mut().unwrap().step(pick, wait, now, &w, &mut node_commits, &mut node_trace) {
                    Some(o) => o,
                    None => {
                        died = true;
                        PollOutcome::Crashed
                    }
                }
            } else if wait {
                exec::step(pick, nodes[pick].as_mut().unwrap())
            } else {
                exec::step_nowait(pick, nodes[pick].as_mut().unwrap())
            }
        };
        let mut out = do_step(blocked.is_some());
        if out == PollOutcome::Blocked && (holder.is_none() || holder == Some(pick)) {
            // no other handle is inside a transaction: the lock is only held by a transaction that
            // was dropped and is being rolled back by its actor thread right now; wait for it
            out = do_step(true);
        }
        if blocked == Some(pick) && !matches!(out, PollOutcome::Blocked) {
            blocked = None;
        }
        if std::env::var_os("TCSIM_TRACE17").is_some() {
            eprintln!("step {steps}: node {pick} nowait={nowait} -> {out:?}");
        }
        match out {
            PollOutcome::Parked(l) => {
                parked[pick] = Some(l);
                in_txn[pick] = !(l == "st.txn" || l == "act");
            }
            PollOutcome::Done => {
                nodes[pick] = None;
                if sc.procs {
                    procs[pick] = None;
                }
                parked[pick] = None;
                in_txn[pick] = false;
            }
            PollOutcome::Blocked => {
                blocked = Some(pick);
                if parked[pick] == Some("st.txn") {
                    parked[pick] = Some("st.txn(blocked)");
                }
                *w.borrow_mut().probes.entry("begin_blocked_by_other_handle".into()).or_insert(0) += 1;
            }
            PollOutcome::Crashed => {
                nodes[pick] = None;
                if sc.procs {
                    procs[pick] = None;
                }
                in_txn[pick] = false;
            }
        }
    }
    drop(nodes);
    drop(procs);
    if died {
        w.borrow_mut().violations.push(Violation { oracle: "harness".into(), sig: "handle-died".into(), detail: "a handle process ended or answered unintelligibly".into() });
    }
    if sc.procs {
        // the handles reported the sequence number of each commit among their own; place them in
        // the order in which the commits returned (one handle runs at a time)
        let mut wb = w.borrow_mut();
        for d in wb.done.iter_mut() {
            d.0 = d.0.and_then(|local| node_commits[d.1].get(local).copied());
        }
        exec::with_ctx(|c| {
            for t in &node_trace {
                c.trace.write_u64(*t);
            }
        });
    }
    // ---- audit through a fresh handle ------------------------------------------------------------
    let ctx = exec::uninstall().unwrap();
    let fin = block_on(async {
        let mut st = SqliteStorage::new(&dir, AccessMode::ReadWrite, true).await?;
        read_state(&mut st).await
    });
    let mut wb = w.borrow_mut();
    match fin {
        Err(e) => wb.violations.push(Violation { oracle: "c17.audit".into(), sig: "unreadable".into(), detail: format!("{e:#}") }),
        Ok(fin) => {
            // sequential model: the successful commits in the order in which they became effective
            let mut done = wb.done.clone();
            done.retain(|d| d.0.is_some());
            done.sort_by_key(|d| d.0);
            let mut tasks = TaskSet::new();
            let mut log: Vec<Operation> = Vec::new();
            let mut bad: Option<String> = None;
            for (_, node, a, d) in &done {
                match d {
                    Done17::Commit { ops, .. } => {
                        for op in ops {
                            match op {
                                Operation::Create { uuid } => {
                                    tasks.entry(*uuid).or_default();
                                }
                                Operation::Delete { uuid, .. } => {
                                    tasks.remove(uuid);
                                }
                                Operation::Update { uuid, property, value, .. } => {
                                    if let Some(t) = tasks.get_mut(uuid) {
                                        match value {
                                            Some(v) => {
                                                t.insert(property.clone(), v.clone());
                                            }
                                            None => {
                                                t.remove(property);
                                            }
                                        }
                                    }
                                }
                                Operation::UndoPoint => {}
                            }
                            log.push(op.clone());
                        }
                    }
                    Done17::Undo { ops, result } => {
                        if *result != Some(true) {
                            bad = Some(format!("node {node} action {a}: an undo that reported {result:?} committed a transaction"));
                            break;
                        }
                        if log.len() < ops.len() || log[log.len() - ops.len()..] != ops[..] {
                            bad = Some(format!("node {node} action {a}: undo succeeded although its operations were not the most recent ones at the time it committed"));
                            break;
                        }
                        for op in ops.iter().rev() {
                            match op {
                                Operation::Create { uuid } => {
                                    tasks.remove(uuid);
                                }
                                Operation::Delete { uuid, old_task } => {
                                    tasks.insert(*uuid, old_task.iter().map(|(k, v)| (k.clone(), v.clone())).collect());
                                }
                                Operation::Update { uuid, property, old_value, .. } => {
                                    if let Some(t) = tasks.get_mut(uuid) {
                                        match old_value {
                                            Some(v) => {
                                                t.insert(property.clone(), v.clone());
                                            }
                                            None => {
                                                t.remove(property);
                                            }
                                        }
                                    }
                                }
                                Operation::UndoPoint => {}
                            }
                            log.pop();
                        }
                    }
                }
            }
            if let Some(b) = bad {
                wb.violations.push(Violation { oracle: "c17.serial".into(), sig: "undo".into(), detail: b });
            } else {
                if fin.unsynced != log {
                    let lost = log.iter().filter(|o| !fin.unsynced.contains(o)).count();
                    let extra = fin.unsynced.iter().filter(|o| !log.contains(o)).count();
                    wb.violations.push(Violation {
                        oracle: "c17.serial".into(),
                        sig: if lost > 0 { "operations-lost" } else if extra > 0 { "operations-extra" } else { "operations-order" }.into(),
                        detail: format!("the stored operation log is not the concatenation of the successful commits in commit order: {} stored, {} expected ({lost} missing, {extra} unexpected)", fin.unsynced.len(), log.len()),
                    });
                } else if fin.tasks != tasks {
                    wb.violations.push(Violation {
                        oracle: "c17.serial".into(),
                        sig: "tasks".into(),
                        detail: format!("the stored tasks are not what the successful commits give one at a time\n  stored:   {}\n  expected: {}", model::fmt_taskset(&fin.tasks), model::fmt_taskset(&tasks)),
                    });
                }
            }
            // working set: no duplicates, position 0 empty, only existing... entries
            let mut seen = std::collections::BTreeSet::new();
            for (i, u) in fin.working_set.iter().enumerate() {
                if let Some(u) = u {
                    if i == 0 {
                        wb.violations.push(Violation { oracle: "c17.ws".into(), sig: "index0".into(), detail: "working-set position 0 is occupied".into() });
                    }
                    if !seen.insert(*u) {
                        wb.violations.push(Violation { oracle: "c17.ws".into(), sig: "duplicate".into(), detail: format!("task {} is in the working set twice", model::short(u)) });
                    }
                }
            }
        }
    }
    let mut trace = ctx.trace;
    trace.write_u64(sched_hash.0);
    let mut sh = Fnv::default();
    sh.write_u64(wb.done.len() as u64);
    let nontrivial = ctx.commit_log.windows(2).any(|x| x[0] != x[1]);
    RunResult {
        violations: wb.violations.clone(),
        trace_hash: trace.0,
        state_hash: sh.0 ^ trace.0,
        fired: BTreeMap::new(),
        probes: wb.probes.clone(),
        points: ctx.points.iter().map(|(k, v)| (k.to_string(), *v)).collect(),
        sim_seconds: steps as f64,
        steps,
        nontrivial,
        evals: 1,
        log: wb.log.clone(),
    }
}

pub fn gen_c17(seed: u64, i: u64, _thorough: bool) -> Value {
    let s = mix(seed, "C17", i);
    let mut rng = Rng::new(s);
    let nodes = *rng.pick(&[2usize, 2, 3, 3, 4, 5, 8]);
    let tasks = 1 + rng.below(4) as u8;
    let mut scripts = Vec::new();
    let mut ts = 0i64;
    for _ in 0..nodes {
        let len = 1 + rng.usize_below(if nodes > 4 { 3 } else { 6 });
        let mut sc = Vec::new();
        for _ in 0..len {
            sc.push(match rng.below(10) {
                0..=5 => {
                    let k = 1 + rng.usize_below(4);
                    let mut ops = Vec::new();
                    if rng.chance(1, 3) {
                        ops.push(Intent::UndoPoint);
                    }
                    for _ in 0..k {
                        let t = rng.below(tasks as u64) as u8;
                        ts += 1;
                        ops.push(match rng.below(10) {
                            0..=2 => Intent::Create { t },
                            3 => Intent::Delete { t },
                            4..=5 => Intent::Key { t, key: "status".into(), val: Some(rng.pick(&["pending", "completed", "pending"]).to_string()), ts },
                            _ => Intent::Set { t, p: rng.below(2) as u8, ts, big: false },
                        });
                    }
                    Act17::Commit(ops)
                }
                6..=7 => Act17::Undo,
                8 => Act17::Rebuild(rng.chance(1, 2)),
                _ => Act17::Read,
            });
        }
        scripts.push(sc);
    }
    serde_json::to_value(Sc17 { check: "C17".into(), seed: s, nodes, scripts, sched_seed: rng.next_u64(), contention: *rng.pick(&[0u32, 100, 300, 600]), procs: rng.chance(1, 4) || std::env::var_os("TCSIM_C17_PROCS").is_some() }).unwrap()
}

pub fn shrink_c17(scv: &Value) -> Vec<Value> {
    let Ok(sc) = serde_json::from_value::<Sc17>(scv.clone()) else { return vec![] };
    let mut out = Vec::new();
    if sc.nodes > 2 {
        let mut c = sc.clone();
        c.nodes -= 1;
        c.scripts.pop();
        out.push(c);
    }
    for n in 0..sc.nodes {
        for a in 0..sc.scripts[n].len() {
            let mut c = sc.clone();
            c.scripts[n].remove(a);
            out.push(c);
            if let Act17::Commit(ops) = &sc.scripts[n][a] {
                for k in 0..ops.len() {
                    let mut c = sc.clone();
                    let mut o = ops.clone();
                    o.remove(k);
                    c.scripts[n][a] = Act17::Commit(o);
                    out.push(c);
                }
            }
        }
    }
    if sc.contention != 0 {
        let mut c = sc.clone();
        c.contention = 0;
        out.push(c);
    }
    if sc.procs {
        let mut c = sc.clone();
        c.procs = false;
        out.push(c);
    }
    out.into_iter().map(|s| serde_json::to_value(s).unwrap()).collect()
}
