//! Family D — the real server backends behind a recording, model-checking proxy.
//!
//! `ProxyServer` wraps any `Box<dyn Server>` (local SQLite server, object-store server over the
//! in-memory store, git server driving the real `git`, HTTP client against the harness's HTTP
//! listener), makes every protocol call a scheduling/fault point, mirrors every accepted version
//! into the reference chain (M-chain) and checks each reply against it (refinement, C08). Because
//! the mirror is the same `ServerWorld` family A uses, whole replicas can run over real backends
//! with all of family A's oracles (invariant, convergence, conservation).

use crate::exec::{yield_point, Decision};
use crate::fam_b::{new_objects, shared_key, OsWorld, SimGate, OSW, SECRET};
use crate::model::{self, AddResult};
use crate::rng::{mix, Rng};
use crate::simserver::{ServerWorld, SrvEvent};
use crate::Violation;
use async_trait::async_trait;
use std::cell::RefCell;
use std::path::{Path, PathBuf};
use std::rc::Rc;
use taskchampion::server::verif::{Objects, VerifCloudServer};
use taskchampion::server::{AddVersionResult, GetVersionResult, HistorySegment, Server, ServerConfig, Snapshot, SnapshotUrgency, VersionId};
use taskchampion::Error;
use uuid::Uuid;

type Result<T> = std::result::Result<T, Error>;

/// 0 = SimServer (no real backend), 1 = local, 2 = object store, 3 = git local-only,
/// 4 = git with a shared bare remote (one clone per handle), 5 = HTTP client
pub const B_SIM: u8 = 0;
pub const B_LOCAL: u8 = 1;
pub const B_CLOUD: u8 = 2;
pub const B_GIT_LOCAL: u8 = 3;
pub const B_GIT_REMOTE: u8 = 4;
pub const B_HTTP: u8 = 5;

pub fn backend_name(b: u8) -> &'static str {
    match b {
        B_LOCAL => "local",
        B_CLOUD => "cloud",
        B_GIT_LOCAL => "git-local",
        B_GIT_REMOTE => "git-remote",
        B_HTTP => "http",
        _ => "sim",
    }
}

/// Everything a run's real backend consists of.
pub struct BackendEnv {
    pub kind: u8,
    pub root: PathBuf,
    pub objects: Option<Objects>,
    pub git_path: Option<PathBuf>,
    pub http_url: Option<String>,
    pub httpd: Option<crate::httpd::Httpd>,
    pub rt: Option<Rc<tokio::runtime::Runtime>>,
    pub client_id: Uuid,
    /// copies share the process-wide hooks of the original and must not remove them
    pub forked: bool,
}

impl BackendEnv {
    pub fn new(kind: u8, root: &Path, seed: u64) -> BackendEnv {
        let objects = if kind == B_CLOUD {
            let o = new_objects();
            // the gate and the listing order need the object-store world
            OSW.with(|w| {
                if w.borrow().is_none() {
                    *w.borrow_mut() = Some(OsWorld { objects: o.clone(), events: vec![], seq: 0, rng: Rng::new(mix(seed, "os", 0)), now_secs: crate::interpose::EPOCH0 as u64, list_mode: (seed % 2) as u8, max_page: [1usize, 2, 3, 1000][(seed / 2 % 4) as usize], mid_action: vec![false; 16] });
                }
            });
            // no dice-driven cleanup / urgency unless a check asks for it
            taskchampion::server::verif::set_randint_source(Some(Box::new(|| 255)));
            Some(o)
        } else {
            None
        };
        if kind == B_GIT_REMOTE {
            let bare = root.join("remote.git");
            let _ = std::fs::create_dir_all(&bare);
            let _ = std::process::Command::new("git").args(["init", "--bare", "-q", "-b", "main"]).arg(&bare).output();
            // the repository is initialised (salt, empty chain) by one clone and pushed before any
            // other clone is opened: two clones initialising an empty remote at once would each
            // invent their own salt
            let seed_dir = root.join("git-seed");
            let cfg = ServerConfig::Git { local_path: seed_dir.clone(), branch: "main".into(), remote: Some(bare.to_string_lossy().to_string()), local_only: false, encryption_secret: SECRET.to_vec(), git_path: None };
            let _ = crate::exec::block_on(cfg.into_server());
            let _ = std::process::Command::new("git").args(["push", "-q"]).arg(&bare).arg("main").current_dir(&seed_dir).output();
        }
        if kind == B_LOCAL || kind == B_GIT_LOCAL || kind == B_GIT_REMOTE {
            // failpoints between the backend's internal steps are fault points of the run
            taskchampion::server::verif_failpoint::set_handler(Some(Box::new(|name| crate::exec::fault_point(name) != Decision::Proceed)));
        }
        let (httpd, rt) = if kind == B_HTTP {
            let h = crate::httpd::Httpd::start(crate::httpd::HttpState::new(mix(seed, "httpd", 0), (seed % 3) as u8)).expect("start http listener");
            let rt = tokio::runtime::Builder::new_current_thread().enable_all().build().expect("tokio runtime");
            (Some(h), Some(Rc::new(rt)))
        } else {
            (None, None)
        };
        BackendEnv { kind, root: root.to_path_buf(), objects, git_path: None, http_url: httpd.as_ref().map(|h| h.url()), httpd, rt, client_id: Uuid::from_u128(0xc11e_0000_0000_4000_8000_000000000001), forked: false }
    }

    /// Open handle `k` (a fresh handle on the same backend; for git-remote: clone `k`).
    pub async fn open(&self, k: usize) -> Result<Box<dyn Server>> {
        match self.kind {
            B_LOCAL => {
                let dir = self.root.join("local-server");
                let _ = std::fs::create_dir_all(&dir);
                ServerConfig::Local { server_dir: dir }.into_server().await
            }
            B_CLOUD => Ok(Box::new(VerifCloudServer::with_key(self.objects.clone().unwrap(), Box::new(SimGate), shared_key()))),
            B_GIT_LOCAL => ServerConfig::Git { local_path: self.root.join("git-repo"), branch: "main".into(), remote: None, local_only: true, encryption_secret: SECRET.to_vec(), git_path: self.git_path.clone() }.into_server().await,
            B_GIT_REMOTE => {
                ServerConfig::Git { local_path: self.root.join(format!("git-clone{k}")), branch: "main".into(), remote: Some(self.root.join("remote.git").to_string_lossy().to_string()), local_only: false, encryption_secret: SECRET.to_vec(), git_path: self.git_path.clone() }
                    .into_server()
                    .await
            }
            B_HTTP => {
                let inner = ServerConfig::Remote { url: self.http_url.clone().unwrap_or_default(), client_id: self.client_id, encryption_secret: SECRET.to_vec() }.into_server().await?;
                Ok(Box::new(HttpBridge { inner, rt: self.rt.clone().unwrap() }))
            }
            _ => Err(Error::Server("no real backend".into())),
        }
    }
}

fn copy_tree(from: &Path, to: &Path) {
    let _ = std::fs::create_dir_all(to);
    if let Ok(rd) = std::fs::read_dir(from) {
        for e in rd.flatten() {
            let p = e.path();
            let t = to.join(e.file_name());
            if p.is_dir() {
                copy_tree(&p, &t);
            } else {
                let _ = std::fs::copy(&p, &t);
            }
        }
    }
}

impl BackendEnv {
    /// An independent copy of the backend's durable state (for re-execution from the same point).
    pub fn fork(&self, new_root: &Path) -> BackendEnv {
        let objects = self.objects.as_ref().map(|o| {
            let copy = o.lock().unwrap().clone();
            std::sync::Arc::new(std::sync::Mutex::new(copy))
        });
        if self.kind != B_CLOUD {
            copy_tree(&self.root, new_root);
            if self.kind == B_GIT_REMOTE {
                // clones name their remote by absolute path: point the copies at the copied remote
                if let Ok(rd) = std::fs::read_dir(new_root) {
                    for e in rd.flatten() {
                        if e.file_name().to_string_lossy().starts_with("git-clone") || e.file_name() == "git-seed" {
                            let _ = std::process::Command::new("git").args(["remote", "set-url", "origin"]).arg(new_root.join("remote.git")).current_dir(e.path()).output();
                        }
                    }
                }
            }
        }
        let httpd = self.httpd.as_ref().map(|h| crate::httpd::Httpd::start(h.state.lock().unwrap().clone()).expect("start http listener"));
        BackendEnv { kind: self.kind, root: new_root.to_path_buf(), objects, git_path: self.git_path.clone(), http_url: httpd.as_ref().map(|h| h.url()), httpd, rt: self.rt.clone(), client_id: self.client_id, forked: true }
    }
}

impl Drop for BackendEnv {
    fn drop(&mut self) {
        if self.forked {
            return;
        }
        taskchampion::server::verif_failpoint::set_handler(None);
        if self.kind == B_CLOUD {
            taskchampion::server::verif::set_randint_source(None);
            OSW.with(|w| *w.borrow_mut() = None);
        }
    }
}

/// reqwest needs a tokio reactor: each protocol call is driven to completion on a current-thread
/// runtime (one request in flight at a time).
pub struct HttpBridge {
    inner: Box<dyn Server>,
    rt: Rc<tokio::runtime::Runtime>,
}

#[async_trait(?Send)]
impl Server for HttpBridge {
    async fn add_version(&mut self, parent_version_id: VersionId, history_segment: HistorySegment) -> Result<(AddVersionResult, SnapshotUrgency)> {
        self.rt.block_on(self.inner.add_version(parent_version_id, history_segment))
    }
    async fn get_child_version(&mut self, parent_version_id: VersionId) -> Result<GetVersionResult> {
        self.rt.block_on(self.inner.get_child_version(parent_version_id))
    }
    async fn add_snapshot(&mut self, version_id: VersionId, snapshot: Snapshot) -> Result<()> {
        self.rt.block_on(self.inner.add_snapshot(version_id, snapshot))
    }
    async fn get_snapshot(&mut self) -> Result<Option<(VersionId, Snapshot)>> {
        self.rt.block_on(self.inner.get_snapshot())
    }
}

/// A version whose add_version call ended without a definite answer (error, lost reply, stop).
#[derive(Clone, Debug)]
pub struct Maybe {
    pub node: usize,
    pub parent: Uuid,
    pub bytes: Vec<u8>,
}

pub struct ProxyServer {
    pub inner: Box<dyn Server>,
    pub node: usize,
    pub world: Rc<RefCell<ServerWorld>>,
    /// compare every reply exactly with the model (no concurrency inside the backend)
    pub strict: bool,
    pub backend: u8,
}

fn srv_err(what: &str) -> Error {
    Error::Server(format!("sim: injected fault at {what}"))
}

fn v(world: &Rc<RefCell<ServerWorld>>, oracle: &str, sig: &str, detail: String) {
    world.borrow_mut().violations.push(Violation { oracle: oracle.into(), sig: sig.into(), detail });
}

fn sh(u: &Uuid) -> String {
    u.to_string()[..8].to_string()
}

impl ProxyServer {
    fn sig(&self, s: &str) -> String {
        format!("{}:{}", backend_name(self.backend), s)
    }
    /// The backend shows a version the mirror does not know: legal only if it is an add_version
    /// whose outcome was never learnt, added on what was then the latest version.
    fn adopt(&self, vid: Uuid, parent: Uuid, bytes: &[u8]) -> bool {
        let mut w = self.world.borrow_mut();
        if parent != w.chain.latest && !(w.chain.latest.is_nil()) {
            return false;
        }
        let Some(i) = w.maybes.iter().position(|m| m.parent == parent && m.bytes == bytes) else { return false };
        let m = w.maybes.remove(i);
        let ops = model::decode_version(bytes, false).ok();
        w.chain.versions.push(model::VersionRec { id: vid, parent, bytes: bytes.to_vec(), origin: m.node, ops });
        w.chain.latest = vid;
        *w.counters.entry("proxy.adopted_unacknowledged_version").or_insert(0) += 1;
        true
    }
}

#[async_trait(?Send)]
impl Server for ProxyServer {
    async fn add_version(&mut self, parent_version_id: VersionId, history_segment: HistorySegment) -> Result<(AddVersionResult, SnapshotUrgency)> {
        let d = yield_point("srv.add_version").await;
        if d == Decision::FailBefore {
            return Err(srv_err("srv.add_version"));
        }
        {
            let mut w = self.world.borrow_mut();
            w.expect_snapshot.remove(&self.node);
            if self.node != usize::MAX {
                if let Err(e) = model::decode_version(&history_segment, true) {
                    if w.check_format {
                        w.violations.push(Violation { oracle: "format.send".into(), sig: "format".into(), detail: format!("node {} sent an undocumented version document: {e}", self.node) });
                    }
                }
            }
            // until the backend has answered, the version may or may not exist
            w.maybes.push(Maybe { node: self.node, parent: parent_version_id, bytes: history_segment.clone() });
        }
        let r = self.inner.add_version(parent_version_id, history_segment.clone()).await;
        let clear_maybe = |w: &mut ServerWorld| {
            if let Some(i) = w.maybes.iter().rposition(|m| m.node == self.node && m.parent == parent_version_id && m.bytes == history_segment) {
                w.maybes.remove(i);
            }
        };
        match &r {
            Ok((AddVersionResult::Ok(vid), urg)) => {
                let mut w = self.world.borrow_mut();
                clear_maybe(&mut w);
                let model_accepts = w.chain.latest.is_nil() || parent_version_id == w.chain.latest;
                if !model_accepts && self.strict {
                    let latest = w.chain.latest;
                    w.violations.push(Violation { oracle: "protocol.add_version".into(), sig: self.sig("accepted-on-non-latest"), detail: format!("{} backend accepted a version on parent {} while the latest version is {}", backend_name(self.backend), sh(&parent_version_id), sh(&latest)) });
                }
                if w.chain.index_of(*vid).is_some() {
                    w.violations.push(Violation { oracle: "protocol.add_version".into(), sig: self.sig("id-reused"), detail: format!("version id {} was handed out twice", sh(vid)) });
                }
                let ops = model::decode_version(&history_segment, false).ok();
                w.chain.versions.push(model::VersionRec { id: *vid, parent: parent_version_id, bytes: history_segment.clone(), origin: self.node, ops });
                w.chain.latest = *vid;
                let u = match urg {
                    SnapshotUrgency::None => 0,
                    SnapshotUrgency::Low => 1,
                    SnapshotUrgency::High => 2,
                };
                let avoid = w.avoid.get(&self.node).copied().unwrap_or(false);
                let due = if avoid { u >= 2 } else { u >= 1 };
                w.expect_snapshot.insert(self.node, Some((*vid, due)));
                *w.counters.entry("add_version.ok").or_insert(0) += 1;
                w.events.push(SrvEvent::Add { node: self.node, parent: parent_version_id, result: AddResult::Ok(*vid), urgency: u });
            }
            Ok((AddVersionResult::ExpectedParentVersion(x), _)) => {
                let mut w = self.world.borrow_mut();
                clear_maybe(&mut w);
                let latest = w.chain.latest;
                if self.strict {
                    if latest.is_nil() || parent_version_id == latest {
                        w.violations.push(Violation { oracle: "protocol.add_version".into(), sig: self.sig("spurious-rejection"), detail: format!("{} backend rejected a version on parent {} although that is the latest version (named {})", backend_name(self.backend), sh(&parent_version_id), sh(x)) });
                    } else if *x != latest {
                        w.violations.push(Violation { oracle: "protocol.add_version".into(), sig: self.sig("wrong-expected-parent"), detail: format!("{} backend rejected a version naming {} as the latest version, but it is {}", backend_name(self.backend), sh(x), sh(&latest)) });
                    }
                }
                *w.counters.entry("add_version.rejected").or_insert(0) += 1;
                w.events.push(SrvEvent::Add { node: self.node, parent: parent_version_id, result: AddResult::Expected(*x), urgency: 0 });
            }
            Err(_) => {
                // outcome unknown: keep the maybe
                *self.world.borrow_mut().counters.entry("add_version.error").or_insert(0) += 1;
            }
        }
        if d == Decision::FailAfter {
            // reply lost: the caller learns nothing (the mirror already knows the truth)
            self.world.borrow_mut().expect_snapshot.remove(&self.node);
            return Err(srv_err("srv.add_version"));
        }
        r
    }

    async fn get_child_version(&mut self, parent_version_id: VersionId) -> Result<GetVersionResult> {
        let d = yield_point("srv.get_child_version").await;
        if d == Decision::FailBefore {
            return Err(srv_err("srv.get_child_version"));
        }
        let r = self.inner.get_child_version(parent_version_id).await;
        match &r {
            Ok(GetVersionResult::Version { version_id, parent_version_id: p, history_segment }) => {
                let known = self.world.borrow().chain.child_of(parent_version_id).map(|c| (c.id, c.bytes.clone()));
                if *p != parent_version_id {
                    v(&self.world, "protocol.get_child_version", &self.sig("wrong-parent"), format!("asked for the child of {} and got a version whose parent is reported as {}", sh(&parent_version_id), sh(p)));
                }
                match known {
                    Some((id, bytes)) => {
                        if id != *version_id {
                            v(&self.world, "protocol.get_child_version", &self.sig("wrong-child"), format!("the child of {} is {} but the {} backend returned {}", sh(&parent_version_id), sh(&id), backend_name(self.backend), sh(version_id)));
                        } else if bytes != *history_segment {
                            v(&self.world, "protocol.get_child_version", &self.sig("wrong-bytes"), format!("version {} came back with {} bytes that differ from the {} bytes submitted", sh(version_id), history_segment.len(), bytes.len()));
                        }
                    }
                    None => {
                        if !self.adopt(*version_id, parent_version_id, history_segment) {
                            v(&self.world, "protocol.get_child_version", &self.sig("phantom-version"), format!("the {} backend returned {} as the child of {}, a version that was never accepted", backend_name(self.backend), sh(version_id), sh(&parent_version_id)));
                        }
                    }
                }
                let mut w = self.world.borrow_mut();
                *w.counters.entry("get_child.found").or_insert(0) += 1;
                w.events.push(SrvEvent::GetChild { node: self.node, parent: parent_version_id, found: Some(*version_id) });
            }
            Ok(GetVersionResult::NoSuchVersion) => {
                let mut w = self.world.borrow_mut();
                if let Some(c) = w.chain.child_of(parent_version_id).map(|c| c.id) {
                    if self.strict {
                        w.violations.push(Violation { oracle: "protocol.get_child_version".into(), sig: self.sig("lost-version"), detail: format!("{} backend says {} has no child, but {} was accepted as its child", backend_name(self.backend), sh(&parent_version_id), sh(&c)) });
                    }
                }
                *w.counters.entry("get_child.none").or_insert(0) += 1;
                w.events.push(SrvEvent::GetChild { node: self.node, parent: parent_version_id, found: None });
            }
            Err(_) => {}
        }
        if d == Decision::FailAfter {
            return Err(srv_err("srv.get_child_version"));
        }
        r
    }

    async fn add_snapshot(&mut self, version_id: VersionId, snapshot: Snapshot) -> Result<()> {
        let d = yield_point("srv.add_snapshot").await;
        if d == Decision::FailBefore {
            self.world.borrow_mut().expect_snapshot.remove(&self.node);
            return Err(srv_err("srv.add_snapshot"));
        }
        // the replica-level snapshot oracles (content, urgency) are the reference server's
        {
            let mut w = self.world.borrow_mut();
            if w.check_snapshots {
                let saved = w.chain.snapshot.clone();
                w.do_add_snapshot(self.node, version_id, snapshot.clone());
                w.chain.snapshot = saved;
            }
            w.snapshots_maybe.push((version_id, snapshot.clone()));
        }
        let r = self.inner.add_snapshot(version_id, snapshot.clone()).await;
        if r.is_ok() {
            let mut w = self.world.borrow_mut();
            w.snapshots_stored.push((version_id, snapshot));
            *w.counters.entry("add_snapshot").or_insert(0) += 1;
        }
        if d == Decision::FailAfter {
            return Err(srv_err("srv.add_snapshot"));
        }
        r
    }

    async fn get_snapshot(&mut self) -> Result<Option<(VersionId, Snapshot)>> {
        let d = yield_point("srv.get_snapshot").await;
        if d == Decision::FailBefore {
            return Err(srv_err("srv.get_snapshot"));
        }
        let r = self.inner.get_snapshot().await;
        match &r {
            Ok(Some((vid, bytes))) => {
                let mut w = self.world.borrow_mut();
                let ok = w.snapshots_stored.iter().chain(w.snapshots_maybe.iter()).any(|(a, b)| a == vid && b == bytes);
                if !ok {
                    w.violations.push(Violation { oracle: "protocol.get_snapshot".into(), sig: self.sig("not-as-stored"), detail: format!("{} backend returned a snapshot for {} ({} bytes) that is not one of the snapshots stored", backend_name(self.backend), sh(vid), bytes.len()) });
                }
                *w.counters.entry("get_snapshot.found").or_insert(0) += 1;
                w.events.push(SrvEvent::GetSnapshot { node: self.node, found: Some(*vid) });
            }
            Ok(None) => {
                let mut w = self.world.borrow_mut();
                let nstored = w.snapshots_stored.len();
                if self.strict && self.backend != B_LOCAL && nstored > 0 {
                    w.violations.push(Violation { oracle: "protocol.get_snapshot".into(), sig: self.sig("snapshot-lost"), detail: format!("{} backend has no snapshot although {} were stored", backend_name(self.backend), nstored) });
                }
                *w.counters.entry("get_snapshot.none").or_insert(0) += 1;
                w.events.push(SrvEvent::GetSnapshot { node: self.node, found: None });
            }
            Err(_) => {}
        }
        if d == Decision::FailAfter {
            return Err(srv_err("srv.get_snapshot"));
        }
        r
    }
}

// ---- C08: every backend implements the version-chain protocol ------------------------------------

use crate::fam_a::{Action, Intent, Scenario, SrvCall, VRef};
use crate::{CheckDef, RunResult};
use serde_json::Value;

pub fn gen_c08(seed: u64, i: u64, thorough: bool) -> Value {
    let s = mix(seed, "C08", i);
    let mut rng = Rng::new(s);
    // git costs ~20 ms per call: fewer and shorter runs there
    let backend = *rng.pick(if thorough {
        &[B_LOCAL, B_CLOUD, B_GIT_LOCAL, B_GIT_REMOTE, B_GIT_REMOTE, B_LOCAL, B_CLOUD, B_HTTP]
    } else {
        &[B_LOCAL, B_LOCAL, B_LOCAL, B_LOCAL, B_LOCAL, B_LOCAL, B_LOCAL, B_LOCAL, B_CLOUD, B_CLOUD, B_CLOUD, B_CLOUD, B_CLOUD, B_CLOUD, B_CLOUD, B_CLOUD, B_GIT_LOCAL, B_GIT_LOCAL, B_GIT_REMOTE, B_GIT_REMOTE, B_GIT_REMOTE, B_GIT_REMOTE, B_HTTP, B_HTTP]
    });
    let git = backend == B_GIT_LOCAL || backend == B_GIT_REMOTE;
    let raw = rng.chance(2, 3);
    let nodes = if backend == B_GIT_LOCAL { 1 } else if backend == B_GIT_REMOTE { 2 } else { *rng.pick(&[1usize, 2, 2, 3]) };
    let mut scripts = Vec::new();
    let mut ts = 0i64;
    for _ in 0..nodes {
        let len = if git { 1 + rng.usize_below(5) } else { 2 + rng.usize_below(10) };
        let mut sc = Vec::new();
        for _ in 0..len {
            if raw {
                let vref = |rng: &mut Rng| match rng.below(10) {
                    0 => VRef::Nil,
                    1..=5 => VRef::Latest,
                    6..=8 => VRef::Chain(rng.below(8) as u8),
                    _ => VRef::Unknown(rng.below(4) as u8),
                };
                // clones of a shared git remote: mostly additions on the latest version and
                // snapshots, so that one clone's push meets commits the other has not fetched
                let roll = if backend == B_GIT_REMOTE { *rng.pick(&[0u64, 1, 2, 3, 4, 5, 9, 14, 14, 15, 16]) } else { rng.below(20) };
                let call = match roll {
                    0..=8 => SrvCall::Add { parent: vref(&mut rng), payload: *rng.pick(&[0u8, 1, 1, 2, 4, 1, 3]) },
                    9..=13 => SrvCall::GetChild { parent: vref(&mut rng) },
                    14..=15 => {
                        if backend == B_LOCAL {
                            SrvCall::GetSnapshot
                        } else {
                            SrvCall::AddSnapshot { version: if rng.chance(3, 4) { VRef::Latest } else { VRef::Chain(rng.below(8) as u8) }, payload: *rng.pick(&[0u8, 1, 2, 4]) }
                        }
                    }
                    16..=17 => SrvCall::GetSnapshot,
                    _ => SrvCall::Reopen,
                };
                sc.push(Action::Srv { call });
            } else if rng.chance(1, 2) {
                sc.push(Action::Sync { avoid: rng.chance(1, 2) });
            } else {
                let k = 1 + rng.usize_below(3);
                let mut ops = Vec::new();
                for _ in 0..k {
                    let t = rng.below(3) as u8;
                    ts += 1;
                    ops.push(match rng.below(10) {
                        0..=2 => Intent::Create { t },
                        3 => Intent::Delete { t },
                        _ => Intent::Set { t, p: rng.below(2) as u8, ts, big: false },
                    });
                }
                sc.push(Action::Commit { ops });
            }
        }
        scripts.push(sc);
    }
    let sc = Scenario {
        check: "C08".into(),
        seed: s,
        nodes,
        scripts,
        sched_seed: rng.next_u64(),
        atomic_sync: true,
        bias: 0,
        faults: vec![],
        urgency_mode: 0,
        srv_seed: rng.next_u64(),
        rounds: vec![],
        under_test: None,
        no_final: raw,
        style: 0,
        late: 0,
        sqlite: false,
        ts_unit_ms: 0,
        kill_budget: 0,
        sweep_max: if git { if thorough { 40 } else { 6 } } else { 0 },
        backend,
    };
    serde_json::to_value(sc).unwrap()
}

pub fn gen_c11(seed: u64, i: u64, thorough: bool) -> Value {
    let s = mix(seed, "C11", i);
    let mut rng = Rng::new(s);
    let backend = *rng.pick(if thorough { &[B_LOCAL, B_CLOUD, B_CLOUD, B_GIT_LOCAL, B_GIT_REMOTE] } else { &[B_LOCAL, B_LOCAL, B_LOCAL, B_CLOUD, B_CLOUD, B_CLOUD, B_CLOUD, B_CLOUD, B_CLOUD, B_LOCAL, B_CLOUD, B_GIT_LOCAL, B_LOCAL, B_CLOUD, B_CLOUD, B_LOCAL, B_CLOUD, B_CLOUD, B_GIT_REMOTE, B_CLOUD, B_LOCAL, B_LOCAL, B_CLOUD, B_CLOUD, B_CLOUD, B_CLOUD, B_LOCAL, B_CLOUD, B_CLOUD, B_CLOUD, B_LOCAL, B_CLOUD, B_CLOUD, B_LOCAL, B_CLOUD, B_CLOUD, B_LOCAL, B_CLOUD, B_CLOUD, B_CLOUD] });
    let git = backend == B_GIT_LOCAL || backend == B_GIT_REMOTE;
    let nodes = if backend == B_GIT_LOCAL { 1 } else { *rng.pick(&[2usize, 2, 3]) };
    let v = rng.usize_below(nodes);
    let mut scripts = Vec::new();
    let mut ts = 0i64;
    let mut commit = |rng: &mut Rng, ts: &mut i64| {
        let k = 1 + rng.usize_below(3);
        let mut ops = Vec::new();
        for _ in 0..k {
            let t = rng.below(3) as u8;
            *ts += 1;
            ops.push(match rng.below(10) {
                0..=3 => Intent::Create { t },
                4 => Intent::Delete { t },
                _ => Intent::Set { t, p: rng.below(2) as u8, ts: *ts, big: false },
            });
        }
        Action::Commit { ops }
    };
    for n in 0..nodes {
        let len = if git { rng.usize_below(3) } else { 1 + rng.usize_below(5) };
        let mut sc = Vec::new();
        for _ in 0..len {
            if rng.chance(1, 2) {
                sc.push(Action::Sync { avoid: rng.chance(1, 2) });
            } else {
                sc.push(commit(&mut rng, &mut ts));
            }
        }
        if n == v {
            // make sure the sync under test has something to add
            sc.push(Action::Commit { ops: vec![Intent::Create { t: 0 }, Intent::Set { t: 0, p: 0, ts: 1000, big: false }] });
        }
        scripts.push(sc);
    }
    let sc = Scenario {
        check: "C11".into(),
        seed: s,
        nodes,
        scripts,
        sched_seed: rng.next_u64(),
        atomic_sync: true,
        bias: 0,
        faults: vec![],
        urgency_mode: 0,
        srv_seed: rng.next_u64(),
        rounds: vec![],
        under_test: Some((v, Action::Sync { avoid: rng.chance(1, 2) })),
        no_final: false,
        style: 0,
        late: 0,
        sqlite: false,
        ts_unit_ms: 0,
        kill_budget: 0,
        sweep_max: if git { if thorough { 40 } else { 6 } } else { 0 },
        backend,
    };
    serde_json::to_value(sc).unwrap()
}

pub fn checks() -> Vec<CheckDef> {
    vec![
    CheckDef {
        id: "C11",
        level: "fault_enumeration",
        runs_quick: 500,
        runs_thorough: 60_000,
        rule: "real replicas sync through a real backend (local SQLite server; object-store server over the in-memory store; git server, local-only and with a shared bare remote) behind the model-checking proxy; after a seeded history one sync whose add_version (and, for the object store, add_snapshot) reaches the backend is executed fault-free to enumerate the backend's internal steps - every object-store request, and failpoints (hook) between the local server's two transactions, around every git command and between the git server's direct file writes - and then once per step and fault kind {fail before the step, step done then failure / lost reply, process stop = future dropped}; every handle is then dropped and reopened, the interrupted replica syncs again and must reach the uninterrupted outcome, all replicas sync to quiescence and must converge with the mirrored chain, every reply of the backend being checked against the chain model (an unacknowledged version may be visible only in full, as the child of the then-latest version). evaluations = executions. Non-trivial: at least one internal step was interrupted; distinct = distinct trace hash.",
        gen: gen_c11,
        run: crate::fam_a::run_sweep,
        shrink: crate::fam_a::shrink,
        real: &["server::local::LocalServer", "server::cloud::server::CloudServer", "server::gitsync::GitSyncServer + real git", "taskdb::sync", "taskchampion::Replica"],
        stub: &["object store = in-memory (hook)", "process stop inside the local and git backends is modelled by an error return at a failpoint (no code of the backend runs after it)"],
        assumptions: &["git: kills in the middle of a git child process are not exercised, only stops between commands and between file writes"],
    },
    CheckDef {
        id: "C08",
        level: "exploration",
        runs_quick: 1_800,
        runs_thorough: 60_000,
        rule: "one seeded call sequence (add-version with the latest / an older / the nil / an unknown parent, get-child-version of known, unknown and nil parents, add-snapshot, get-snapshot; payloads empty, text, non-UTF-8, all byte values, one megabyte) issued through 1-3 handles obtained from ServerConfig::into_server (object store: the hook constructor) on the local server, the object-store server, the git server (local-only, and clones sharing a bare remote), with handles dropped and reopened at seeded points; every reply is compared with the reference chain model by a proxy (accept iff parent is latest or nothing exists, rejection names the latest and changes nothing, child versions byte for byte, unknown parent -> no such version, snapshots exactly as stored) and a fresh handle finally re-reads the whole chain; in a third of the runs whole replicas sync through the backend instead and must converge with the mirrored chain. Non-trivial: a version was rejected or a handle reopened; distinct = distinct trace hash.",
        gen: gen_c08,
        run: crate::fam_a::run,
        shrink: crate::fam_a::shrink,
        real: &["server::local::LocalServer (rusqlite)", "server::cloud::server::CloudServer over the in-memory object store", "server::gitsync::GitSyncServer driving the real git 2.39", "server::encryption", "server::config::ServerConfig::into_server", "taskchampion::Replica (replica runs)"],
        stub: &["object store = in-memory (hook); HTTP leg: see C08 notes in DESIGN.md"],
        assumptions: &["calls are issued one at a time (interleaving inside the object-store server is C09)", "the local server is never asked to store a snapshot (it never requests one and its add_snapshot is unreachable by construction)", "clones of a git remote are opened after the repository has been initialised and pushed once"],
    },
    ]
}
