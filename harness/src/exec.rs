//! Single-threaded executor the simulator owns. Nodes are futures; `yield_point(label).await`
//! parks the calling node once and hands control back to the scheduler, which decides who runs
//! next. Every yield point and every `fault_point` is also a place where the run's fault plan
//! can inject a decision (fail before, fail after, crash).

use crate::rng::Fnv;
use std::cell::RefCell;
use std::collections::BTreeMap;
use std::future::Future;
use std::pin::Pin;
use std::sync::atomic::{AtomicBool, Ordering};
use std::sync::Arc;
use std::task::{Context, Poll, Wake, Waker};

#[derive(Clone, Copy, Debug, PartialEq, Eq, PartialOrd, Ord, Hash, serde::Serialize, serde::Deserialize)]
pub enum Decision {
    Proceed,
    /// the request/call fails before having any effect
    FailBefore,
    /// the request/call takes effect, then the caller sees an error (lost reply)
    FailAfter,
    /// the node is stopped here: its future is dropped, only durable state survives
    Crash,
}

impl Decision {
    pub fn name(&self) -> &'static str {
        match self {
            Decision::Proceed => "proceed",
            Decision::FailBefore => "fail_before",
            Decision::FailAfter => "fail_after",
            Decision::Crash => "crash",
        }
    }
}

/// Per-run context shared (thread-locally) between the executor, the seams and the node code.
pub struct Ctx {
    pub active: bool,
    pub cur_node: usize,
    /// index of the action each node is currently executing
    pub action_idx: Vec<usize>,
    /// ordinal of the next fault/yield point inside the node's current action
    pub ordinal: Vec<u32>,
    /// (node, action index, point ordinal) -> decision
    pub faults: BTreeMap<(usize, usize, u32), Decision>,
    /// counts of faults that actually fired, keyed "label/decision"
    pub fired: BTreeMap<String, u64>,
    /// counts of points passed, keyed by label
    pub points: BTreeMap<&'static str, u64>,
    /// hash of the (node, label, decision) trace
    pub trace: Fnv,
    /// if set, the labels of all points passed by every node are recorded (dry runs)
    pub record_points: bool,
    pub point_log: Vec<(usize, usize, u32, &'static str)>,
    parked: Option<&'static str>,
    crash: bool,
    /// victim processes only: SIGKILL this process on arrival at (node, action, ordinal)
    pub kill_at: Option<(usize, usize, u32)>,
    /// victim processes only: report every returned commit on stdout
    pub report_commits: bool,
    /// node of every commit that returned Ok, in order (the linearization order of commits)
    pub commit_log: Vec<usize>,
}

impl Ctx {
    pub fn new(nodes: usize) -> Ctx {
        Ctx {
            active: false,
            cur_node: 0,
            action_idx: vec![0; nodes],
            ordinal: vec![0; nodes],
            faults: BTreeMap::new(),
            fired: BTreeMap::new(),
            points: BTreeMap::new(),
            trace: Fnv::default(),
            record_points: false,
            point_log: Vec::new(),
            parked: None,
            crash: false,
            kill_at: None,
            report_commits: false,
            commit_log: Vec::new(),
        }
    }
}

thread_local! {
    static CTX: RefCell<Option<Ctx>> = const { RefCell::new(None) };
}

pub fn install(ctx: Ctx) {
    CTX.with(|c| *c.borrow_mut() = Some(ctx));
}
pub fn uninstall() -> Option<Ctx> {
    CTX.with(|c| c.borrow_mut().take())
}
pub fn with_ctx<R>(f: impl FnOnce(&mut Ctx) -> R) -> Option<R> {
    CTX.with(|c| c.borrow_mut().as_mut().map(f))
}

/// Called by node code at the start of each action: resets the point ordinal.
pub fn begin_action(idx: usize) {
    with_ctx(|c| {
        let n = c.cur_node;
        c.action_idx[n] = idx;
        c.ordinal[n] = 0;
    });
}

/// A synchronous fault point (not a scheduling point). Returns the plan's decision.
pub fn fault_point(label: &'static str) -> Decision {
    with_ctx(|c| {
        if !c.active {
            return Decision::Proceed;
        }
        let n = c.cur_node;
        let ord = c.ordinal[n];
        c.ordinal[n] += 1;
        if c.kill_at == Some((n, c.action_idx[n], ord)) {
            kill_self();
        }
        *c.points.entry(label).or_insert(0) += 1;
        let d = c.faults.get(&(n, c.action_idx[n], ord)).copied().unwrap_or(Decision::Proceed);
        if c.record_points {
            c.point_log.push((n, c.action_idx[n], ord, label));
        }
        c.trace.write_u64(n as u64);
        c.trace.write_str(label);
        c.trace.write_u64(d as u64);
        if d != Decision::Proceed {
            *c.fired.entry(format!("{}/{}", label, d.name())).or_insert(0) += 1;
        }
        d
    })
    .unwrap_or(Decision::Proceed)
}

pub struct YieldFut {
    label: &'static str,
    decided: Option<Decision>,
    sched: bool,
}

impl Future for YieldFut {
    type Output = Decision;
    fn poll(mut self: Pin<&mut Self>, _cx: &mut Context<'_>) -> Poll<Decision> {
        let active = with_ctx(|c| c.active).unwrap_or(false);
        if !active {
            return Poll::Ready(Decision::Proceed);
        }
        match self.decided {
            None => {
                let d = fault_point(self.label);
                self.decided = Some(d);
                if d == Decision::Crash {
                    with_ctx(|c| c.crash = true);
                    return Poll::Pending;
                }
                if !self.sched {
                    return Poll::Ready(d);
                }
                with_ctx(|c| c.parked = Some(self.label));
                Poll::Pending
            }
            Some(Decision::Crash) => Poll::Pending,
            Some(d) => Poll::Ready(d),
        }
    }
}

/// Park the current node at a scheduling point; returns the fault plan's decision for it.
/// With `Decision::Crash` the future never resumes (the executor drops the node).
pub fn yield_point(label: &'static str) -> YieldFut {
    YieldFut { label, decided: None, sched: true }
}

/// A fault point that is not a scheduling point (but still async so that `Crash` can park forever).
pub fn fault_point_async(label: &'static str) -> YieldFut {
    YieldFut { label, decided: None, sched: false }
}

struct ThreadWaker {
    thread: std::thread::Thread,
    woken: AtomicBool,
}
impl Wake for ThreadWaker {
    fn wake(self: Arc<Self>) {
        self.woken.store(true, Ordering::SeqCst);
        self.thread.unpark();
    }
}

/// Run a future to completion on this thread with yield/fault points disabled (they return
/// `Proceed` at once). Used for set-up, inspection and oracle code.
pub fn block_on<F: Future>(fut: F) -> F::Output {
    let prev = with_ctx(|c| std::mem::replace(&mut c.active, false)).unwrap_or(false);
    let tw = Arc::new(ThreadWaker { thread: std::thread::current(), woken: AtomicBool::new(false) });
    let waker = Waker::from(tw.clone());
    let mut cx = Context::from_waker(&waker);
    let mut fut = std::pin::pin!(fut);
    let out = loop {
        match fut.as_mut().poll(&mut cx) {
            Poll::Ready(v) => break v,
            Poll::Pending => {
                while !tw.woken.swap(false, Ordering::SeqCst) {
                    std::thread::park();
                }
            }
        }
    };
    with_ctx(|c| c.active = prev);
    out
}

pub type NodeFut = Pin<Box<dyn Future<Output = ()>>>;

#[derive(Debug, PartialEq, Eq)]
pub enum PollOutcome {
    /// node parked at a scheduling point
    Parked(&'static str),
    /// node ran to completion
    Done,
    /// the fault plan stopped the node here; the caller must drop the future
    Crashed,
    /// (step_nowait only) the node is waiting on a real thread, e.g. inside SQLite's BEGIN
    /// IMMEDIATE while another handle holds the write lock
    Blocked,
}

/// Poll node `n` until it parks at a scheduling point, completes, or is crashed. Waits on real
/// threads (SQLite actor) are absorbed here: other nodes are never polled meanwhile.
pub fn step(n: usize, fut: &mut NodeFut) -> PollOutcome {
    step_inner(n, fut, true)
}

/// Like `step`, but if the real thread the node waits on is seen waiting for a database lock
/// (SQLite's busy handler sleeping), return `Blocked` instead of waiting for the lock (the node
/// keeps waiting in the background; `step` it again later). Only to be used while no other
/// thread is busy-waiting.
pub fn step_nowait(n: usize, fut: &mut NodeFut) -> PollOutcome {
    step_inner(n, fut, false)
}

fn step_inner(n: usize, fut: &mut NodeFut, wait: bool) -> PollOutcome {
    let tw = Arc::new(ThreadWaker { thread: std::thread::current(), woken: AtomicBool::new(false) });
    let waker = Waker::from(tw.clone());
    let mut cx = Context::from_waker(&waker);
    with_ctx(|c| {
        c.active = true;
        c.cur_node = n;
        c.parked = None;
        c.crash = false;
    });
    if !wait {
        crate::interpose::busy_listen(true);
    }
    let out = loop {
        match fut.as_mut().poll(&mut cx) {
            Poll::Ready(()) => break PollOutcome::Done,
            Poll::Pending => {
                let (parked, crash) = with_ctx(|c| (c.parked.take(), c.crash)).unwrap();
                if crash {
                    break PollOutcome::Crashed;
                }
                if let Some(k) = parked {
                    break PollOutcome::Parked(k);
                }
                if !wait {
                    // exactly one of two things happens next, whatever the timing: the real
                    // thread replies, or it is seen sleeping in SQLite's busy handler
                    let mut busy = false;
                    loop {
                        if tw.woken.swap(false, Ordering::SeqCst) {
                            break;
                        }
                        if crate::interpose::busy_seen() {
                            busy = true;
                            break;
                        }
                        std::thread::park_timeout(std::time::Duration::from_millis(50));
                    }
                    if busy {
                        break PollOutcome::Blocked;
                    }
                    continue;
                }
                while !tw.woken.swap(false, Ordering::SeqCst) {
                    std::thread::park();
                }
            }
        }
    };
    if !wait {
        crate::interpose::busy_listen(false);
    }
    with_ctx(|c| c.active = false);
    out
}

/// SIGKILL the current process (victim processes of the crash sweeps).
pub fn kill_self() -> ! {
    unsafe {
        libc::kill(libc::getpid(), libc::SIGKILL);
        loop {
            libc::pause();
        }
    }
}

/// Called by the storage seam right after a real commit returned Ok.
pub fn commit_returned() {
    let report = with_ctx(|c| {
        if c.active {
            let n = c.cur_node;
            c.commit_log.push(n);
        }
        c.report_commits
    })
    .unwrap_or(false);
    if report {
        let msg = b"C\n";
        unsafe {
            libc::write(1, msg.as_ptr() as *const libc::c_void, msg.len());
        }
    }
}
