//! Worker pool, minimisation, replay files, known findings, evidence.

use crate::rng::mix;
use crate::{find_check, CheckDef, RunResult, Violation, DEFAULT_SEED};
use serde::{Deserialize, Serialize};
use serde_json::{json, Value};
use std::collections::{BTreeMap, BTreeSet};
use std::io::{BufRead, Write};
use std::process::{Command, Stdio};
use std::sync::Mutex;
use std::time::Instant;

fn verif_dir() -> String {
    std::env::var("TCSIM_OUT_DIR").unwrap_or_else(|_| "/verif".to_string())
}

static PANIC_MSG: Mutex<Option<String>> = Mutex::new(None);

pub fn install_panic_hook() {
    std::panic::set_hook(Box::new(|info| {
        let msg = if let Some(s) = info.payload().downcast_ref::<&str>() {
            s.to_string()
        } else if let Some(s) = info.payload().downcast_ref::<String>() {
            s.clone()
        } else {
            "panic".to_string()
        };
        let loc = info.location().map(|l| format!("{}:{}", l.file(), l.line())).unwrap_or_default();
        *PANIC_MSG.lock().unwrap() = Some(format!("{msg} at {loc}"));
    }));
}

/// Execute one scenario on a fresh thread (fresh `RandomState` keys, isolated panics).
pub fn run_isolated(def: &CheckDef, sc: &Value, want_log: bool) -> RunResult {
    let run = def.run;
    let sc2 = sc.clone();
    let seed = sc.get("seed").and_then(|s| s.as_u64()).unwrap_or(0);
    let h = std::thread::Builder::new()
        .stack_size(16 << 20)
        .spawn(move || {
            crate::interpose::activate(mix(seed, "getrandom", 0), crate::interpose::EPOCH0);
            let r = run(&sc2, want_log);
            crate::interpose::deactivate();
            r
        })
        .expect("spawn run thread");
    match h.join() {
        Ok(r) => r,
        Err(_) => {
            crate::interpose::deactivate();
            crate::exec::uninstall();
            let msg = PANIC_MSG.lock().unwrap().take().unwrap_or_else(|| "panic".into());
            // strip anything run-specific from the signature: keep the location only
            let loc = msg.rsplit(" at ").next().unwrap_or("").to_string();
            RunResult {
                violations: vec![Violation { oracle: "panic".into(), sig: loc, detail: format!("the code under test panicked: {msg}") }],
                ..Default::default()
            }
        }
    }
}

fn same_class(r: &RunResult, class: &str) -> Option<Violation> {
    r.violations.iter().find(|v| v.class() == class).cloned()
}

/// Delta-debug the scenario while the same violation class persists.
pub fn minimise(def: &CheckDef, sc: &Value, class: &str, budget_runs: usize, budget_secs: f64) -> (Value, usize) {
    let t0 = Instant::now();
    let mut cur = sc.clone();
    let mut runs = 0usize;
    'outer: loop {
        let cands = (def.shrink)(&cur);
        for c in cands {
            if runs >= budget_runs || t0.elapsed().as_secs_f64() > budget_secs {
                break 'outer;
            }
            runs += 1;
            let r = run_isolated(def, &c, false);
            if same_class(&r, class).is_some() {
                cur = c;
                continue 'outer;
            }
        }
        break;
    }
    (cur, runs)
}

#[derive(Serialize, Deserialize, Default)]
struct WorkerSummary {
    runs: u64,
    evals: u64,
    nontrivial_runs: u64,
    traces: Vec<u64>,
    nontrivial_traces: Vec<u64>,
    states: Vec<u64>,
    fired: BTreeMap<String, u64>,
    probes: BTreeMap<String, u64>,
    points: BTreeMap<String, u64>,
    sim_seconds: f64,
    steps: u64,
    samples: Vec<Value>,
    shrink_runs: u64,
    cut_by_time: bool,
}

#[derive(Serialize, Deserialize, Clone)]
struct FoundViolation {
    i: u64,
    violation: Violation,
    scenario: Value,
    original_size: usize,
    minimised_size: usize,
}

fn tier_secs(tier: &str) -> f64 {
    if let Ok(s) = std::env::var("VERIF_MAX_SECS") {
        if let Ok(v) = s.parse::<f64>() {
            return v;
        }
    }
    if tier == "thorough" {
        1500.0
    } else {
        100.0
    }
}

pub fn cmd_worker(args: &[String]) -> i32 {
    install_panic_hook();
    let def = find_check(&args[0]).expect("unknown check");
    let tier = args[1].as_str();
    let seed: u64 = args[2].parse().unwrap();
    let first: u64 = args[3].parse().unwrap();
    let count: u64 = args[4].parse().unwrap();
    let stride: u64 = args[5].parse().unwrap();
    let max_secs = tier_secs(tier);
    let t0 = Instant::now();
    let out = std::io::stdout();
    let mut sum = WorkerSummary::default();
    let mut traces = BTreeSet::new();
    let mut nt_traces = BTreeSet::new();
    let mut states = BTreeSet::new();
    let mut classes_seen: BTreeSet<String> = BTreeSet::new();
    let known = load_known();
    let mut i = first;
    while i < count {
        if t0.elapsed().as_secs_f64() > max_secs {
            sum.cut_by_time = true;
            break;
        }
        let sc = (def.gen)(seed, i, tier == "thorough");
        let t_run = Instant::now();
        let r = run_isolated(&def, &sc, false);
        if std::env::var("TCSIM_PROFILE").is_ok() {
            let big = sc.to_string().matches("\"big\":true").count();
            eprintln!("PROFILE run={i} ms={:.2} big={big} steps={}", t_run.elapsed().as_secs_f64() * 1000.0, r.steps);
        }
        sum.runs += 1;
        sum.evals += r.evals.max(1);
        traces.insert(r.trace_hash);
        states.insert(r.state_hash);
        if r.nontrivial {
            sum.nontrivial_runs += 1;
            nt_traces.insert(r.trace_hash);
        }
        for (k, v) in &r.fired {
            *sum.fired.entry(k.clone()).or_insert(0) += v;
        }
        for (k, v) in &r.probes {
            *sum.probes.entry(k.clone()).or_insert(0) += v;
        }
        for (k, v) in &r.points {
            *sum.points.entry(k.clone()).or_insert(0) += v;
        }
        sum.sim_seconds += r.sim_seconds;
        sum.steps += r.steps;
        if sum.samples.len() < 2 && first == 0 && (r.nontrivial || i > 20 * stride) {
            sum.samples.push(json!({"run": i, "scenario": sc, "nontrivial": r.nontrivial, "trace_hash": format!("{:016x}", r.trace_hash), "violations": r.violations.len()}));
        }
        for v in &r.violations {
            let class = v.class();
            if classes_seen.contains(&class) {
                continue;
            }
            classes_seen.insert(class.clone());
            let orig = sc.to_string().len();
            // recorded findings are only re-observed, not minimised again
            let is_known = known.findings.iter().any(|k| k.matches(def.id, &class));
            let (min_sc, n) = if is_known { (sc.clone(), 0) } else { minimise(&def, &sc, &class, 4000, 60.0) };
            sum.shrink_runs += n as u64;
            let rr = run_isolated(&def, &min_sc, false);
            let vv = same_class(&rr, &class).unwrap_or_else(|| v.clone());
            let fv = FoundViolation { i, violation: vv, minimised_size: min_sc.to_string().len(), scenario: min_sc, original_size: orig };
            let mut o = out.lock();
            writeln!(o, "{}", json!({"type": "violation", "data": fv})).ok();
            o.flush().ok();
        }
        if classes_seen.iter().filter(|c| !known.findings.iter().any(|k| k.matches(def.id, c))).count() >= 4 {
            break;
        }
        i += stride;
    }
    sum.traces = traces.into_iter().collect();
    sum.nontrivial_traces = nt_traces.into_iter().collect();
    sum.states = states.into_iter().collect();
    let mut o = out.lock();
    writeln!(o, "{}", json!({"type": "summary", "data": sum})).ok();
    o.flush().ok();
    0
}

#[derive(Deserialize, Default)]
struct KnownFindings {
    #[serde(default)]
    findings: Vec<KnownFinding>,
}
#[derive(Deserialize, Clone)]
struct KnownFinding {
    property: String,
    /// matches a violation whose class string ("oracle|sig") starts with this …
    #[serde(default)]
    class_prefix: String,
    /// … and contains every one of these
    #[serde(default)]
    class_contains: Vec<String>,
    description: String,
}

impl KnownFinding {
    fn matches(&self, property: &str, class: &str) -> bool {
        self.property == property && class.starts_with(&self.class_prefix) && self.class_contains.iter().all(|c| class.contains(c.as_str())) && !(self.class_prefix.is_empty() && self.class_contains.is_empty())
    }
}

fn load_known() -> KnownFindings {
    match std::fs::read_to_string("/verif/known_findings.json".to_string()) {
        Ok(s) => serde_json::from_str(&s).unwrap_or_default(),
        Err(_) => KnownFindings::default(),
    }
}

fn get_seed() -> u64 {
    std::env::var("VERIF_SEED").ok().and_then(|s| s.parse::<u64>().ok()).unwrap_or(DEFAULT_SEED)
}

pub fn cmd_check(args: &[String]) -> i32 {
    if args.len() < 2 {
        eprintln!("usage: tcsim check <ID> <quick|thorough>");
        return 2;
    }
    let id = args[0].as_str();
    let tier = match std::env::var("VERIF_TIER") {
        Ok(t) if t == "quick" || t == "thorough" => t,
        _ => args[1].clone(),
    };
    let def = match find_check(id) {
        Some(d) => d,
        None => {
            eprintln!("unknown check {id}");
            return 2;
        }
    };
    let seed = get_seed();
    let runs: u64 = std::env::var("VERIF_RUNS").ok().and_then(|s| s.parse().ok()).unwrap_or(if tier == "thorough" { def.runs_thorough } else { def.runs_quick });
    let workers: u64 = std::env::var("VERIF_WORKERS").ok().and_then(|s| s.parse().ok()).unwrap_or(16);
    println!("tcsim check {id} tier={tier} seed={seed} runs={runs} workers={workers}");
    let t0 = Instant::now();
    let exe = std::env::current_exe().unwrap();
    let mut children = Vec::new();
    for w in 0..workers {
        let c = Command::new(&exe)
            .args(["worker", id, &tier, &seed.to_string(), &w.to_string(), &runs.to_string(), &workers.to_string()])
            .stdout(Stdio::piped())
            .stderr(Stdio::inherit())
            .spawn();
        match c {
            Ok(c) => children.push(c),
            Err(e) => {
                eprintln!("cannot spawn worker: {e}");
                return 2;
            }
        }
    }
    let mut total = WorkerSummary::default();
    let mut traces = BTreeSet::new();
    let mut nt_traces = BTreeSet::new();
    let mut states = BTreeSet::new();
    let mut found: Vec<FoundViolation> = Vec::new();
    let mut harness_error = false;
    for mut c in children {
        let so = c.stdout.take().unwrap();
        let rd = std::io::BufReader::new(so);
        let mut got_summary = false;
        for line in rd.lines().map_while(|l| l.ok()) {
            let v: Value = match serde_json::from_str(&line) {
                Ok(v) => v,
                Err(_) => {
                    println!("{line}");
                    continue;
                }
            };
            match v.get("type").and_then(|t| t.as_str()) {
                Some("violation") => {
                    if let Ok(fv) = serde_json::from_value::<FoundViolation>(v["data"].clone()) {
                        found.push(fv);
                    }
                }
                Some("summary") => {
                    if let Ok(s) = serde_json::from_value::<WorkerSummary>(v["data"].clone()) {
                        got_summary = true;
                        total.runs += s.runs;
                        total.evals += s.evals;
                        total.nontrivial_runs += s.nontrivial_runs;
                        traces.extend(s.traces);
                        nt_traces.extend(s.nontrivial_traces);
                        states.extend(s.states);
                        for (k, v) in s.fired {
                            *total.fired.entry(k).or_insert(0) += v;
                        }
                        for (k, v) in s.probes {
                            *total.probes.entry(k).or_insert(0) += v;
                        }
                        for (k, v) in s.points {
                            *total.points.entry(k).or_insert(0) += v;
                        }
                        total.sim_seconds += s.sim_seconds;
                        total.steps += s.steps;
                        total.samples.extend(s.samples);
                        total.shrink_runs += s.shrink_runs;
                        total.cut_by_time |= s.cut_by_time;
                    }
                }
                _ => {}
            }
        }
        let st = c.wait();
        if !got_summary || !st.map(|s| s.success()).unwrap_or(false) {
            eprintln!("worker ended abnormally");
            harness_error = true;
        }
    }
    let wall = t0.elapsed().as_secs_f64();

    // classify violations
    let known = load_known();
    let mut printed_known: BTreeSet<String> = BTreeSet::new();
    let mut known_runs = 0u64;
    let mut reported: BTreeMap<String, FoundViolation> = BTreeMap::new();
    for fv in &found {
        let class = fv.violation.class();
        if let Some(k) = known.findings.iter().find(|k| k.matches(id, &class)) {
            known_runs += 1;
            if printed_known.insert(k.description.clone()) {
                println!("KNOWN-FINDING: property={id} {}", k.description);
            }
            continue;
        }
        let e = reported.entry(class).or_insert_with(|| fv.clone());
        if fv.minimised_size < e.minimised_size {
            *e = fv.clone();
        }
    }
    let mut exit = 0;
    let out_dir = verif_dir();
    let _ = std::fs::create_dir_all(format!("{out_dir}/replays"));
    for (class, fv) in &reported {
        let path = format!("{out_dir}/replays/{id}-{seed}-{}-{}.json", fv.i, sanitize(class));
        let doc = json!({
            "property": id,
            "check": id,
            "seed": seed,
            "run": fv.i,
            "violation": fv.violation,
            "scenario": fv.scenario,
            "original_scenario_bytes": fv.original_size,
            "minimised_scenario_bytes": fv.minimised_size,
            "replay_cmd": format!("/verif/check {id} --replay {path}"),
        });
        if std::fs::write(&path, serde_json::to_string_pretty(&doc).unwrap()).is_err() {
            eprintln!("cannot write replay file {path}");
            harness_error = true;
            continue;
        }
        // the replay must reproduce in a fresh process before it is reported
        let st = Command::new(&exe).args(["replay", &path, "--quiet"]).stdout(Stdio::null()).status();
        match st.map(|s| s.code()) {
            Ok(Some(1)) => {
                println!("violation class: {class}");
                println!("{}", fv.violation.detail);
                println!("VIOLATION property={id} replay={path}");
                exit = 1;
            }
            other => {
                eprintln!("replay of {path} did not reproduce ({other:?}); treating as harness error");
                harness_error = true;
            }
        }
    }

    // evidence
    let ev = json!({
        "property_id": id,
        "tier": tier,
        "seed": seed,
        "level": def.level,
        "coverage": {
            "evaluations": total.evals,
            "scenarios": total.runs,
            "distinct_nontrivial": nt_traces.len(),
            "rule": def.rule,
            "samples": total.samples,
            "exhaustive": false,
            "nontrivial_runs": total.nontrivial_runs,
            "distinct_traces": traces.len(),
            "distinct_states": states.len(),
            "runs_per_hour": if wall > 0.0 { (total.runs as f64 / wall * 3600.0) as u64 } else { 0 },
            "seeds_per_hour": if wall > 0.0 { (total.runs as f64 / wall * 3600.0) as u64 } else { 0 },
            "simulated_seconds": total.sim_seconds,
            "scheduler_steps": total.steps,
            "faults_fired": total.fired,
            "fault_points_passed": total.points,
            "probes": total.probes,
            "real_components": def.real,
            "stub_components": def.stub,
            "known_finding_runs": known_runs,
            "minimisation_runs": total.shrink_runs,
            "cut_by_wall_clock": total.cut_by_time,
            "workers": workers,
        },
        "assumptions": def.assumptions,
        "wall_s": wall,
        "violations": reported.len(),
    });
    let _ = std::fs::create_dir_all(format!("{out_dir}/evidence"));
    let evp = format!("{out_dir}/evidence/{id}.json");
    if std::fs::write(&evp, serde_json::to_string_pretty(&ev).unwrap()).is_err() {
        eprintln!("cannot write {evp}");
        harness_error = true;
    }
    println!(
        "{id}: runs={} nontrivial={} distinct_traces={} distinct_nontrivial={} states={} faults_fired={} wall={:.1}s violations={} known={}",
        total.runs,
        total.nontrivial_runs,
        traces.len(),
        nt_traces.len(),
        states.len(),
        total.fired.values().sum::<u64>(),
        wall,
        reported.len(),
        known_runs
    );
    if exit == 1 {
        return 1;
    }
    if harness_error {
        return 2;
    }
    0
}

fn sanitize(s: &str) -> String {
    s.chars().map(|c| if c.is_ascii_alphanumeric() || c == '-' || c == '.' { c } else { '_' }).take(60).collect()
}

pub fn cmd_replay(args: &[String]) -> i32 {
    install_panic_hook();
    if args.is_empty() {
        eprintln!("usage: tcsim replay <file>");
        return 2;
    }
    let quiet = args.iter().any(|a| a == "--quiet");
    let text = match std::fs::read_to_string(&args[0]) {
        Ok(t) => t,
        Err(e) => {
            eprintln!("cannot read {}: {e}", args[0]);
            return 2;
        }
    };
    let doc: Value = match serde_json::from_str(&text) {
        Ok(v) => v,
        Err(e) => {
            eprintln!("bad replay file: {e}");
            return 2;
        }
    };
    let id = doc["check"].as_str().unwrap_or("");
    let def = match find_check(id) {
        Some(d) => d,
        None => {
            eprintln!("unknown check {id:?} in replay file");
            return 2;
        }
    };
    let r = run_isolated(&def, &doc["scenario"], !quiet);
    if !quiet {
        for l in &r.log {
            println!("{l}");
        }
    }
    let want: Option<Violation> = serde_json::from_value(doc["violation"].clone()).ok();
    let known = load_known();
    let mut code = 0;
    for v in &r.violations {
        let class = v.class();
        if known.findings.iter().any(|k| k.matches(id, &class)) {
            if !quiet {
                println!("KNOWN-FINDING: property={id} class={class}");
            }
            continue;
        }
        if !quiet {
            println!("violation class: {class}\n{}", v.detail);
        }
    }
    if let Some(w) = want {
        if r.violations.iter().any(|v| v.class() == w.class()) {
            if !quiet {
                println!("VIOLATION property={} replay={}", doc["property"].as_str().unwrap_or(id), args[0]);
            }
            code = 1;
        } else if !quiet {
            println!("replay did not reproduce the recorded violation class {}", w.class());
        }
    } else if !r.violations.is_empty() {
        code = 1;
    }
    code
}

/// print the scenario generated for (check, seed, i)
pub fn cmd_gen(args: &[String]) -> i32 {
    let def = find_check(&args[0]).expect("unknown check");
    let seed = get_seed();
    let i: u64 = args.get(1).and_then(|s| s.parse().ok()).unwrap_or(0);
    let sc = (def.gen)(seed, i, false);
    println!("{}", serde_json::to_string_pretty(&sc).unwrap());
    install_panic_hook();
    let r = run_isolated(&def, &sc, true);
    for l in &r.log {
        println!("{l}");
    }
    for v in &r.violations {
        println!("violation {}: {}", v.class(), v.detail);
    }
    println!("trace={:016x} state={:016x} nontrivial={} probes={:?} fired={:?}", r.trace_hash, r.state_hash, r.nontrivial, r.probes, r.fired);
    0
}

/// Determinism proof: each seed executed twice in separate processes (and once at another worker
/// count); the full event logs must be identical.
pub fn cmd_selftest(args: &[String]) -> i32 {
    if args.first().map(|s| s.as_str()) == Some("logs") {
        // internal: print hash of full logs for runs first..first+n of a check
        install_panic_hook();
        let def = find_check(&args[1]).expect("unknown check");
        let seed: u64 = args[2].parse().unwrap();
        let first: u64 = args[3].parse().unwrap();
        let n: u64 = args[4].parse().unwrap();
        for i in first..first + n {
            let sc = (def.gen)(seed, i, false);
            let r = run_isolated(&def, &sc, true);
            let mut h = crate::rng::Fnv::default();
            for l in &r.log {
                h.write_str(l);
            }
            h.write_u64(r.trace_hash);
            h.write_u64(r.state_hash);
            println!("{i} {:016x} {}", h.0, r.violations.len());
        }
        return 0;
    }
    if args.first().map(|s| s.as_str()) != Some("determinism") {
        eprintln!("usage: tcsim selftest determinism [ID…]");
        return 2;
    }
    let ids: Vec<String> = if args.len() > 1 { args[1..].to_vec() } else { crate::checks().iter().map(|c| c.id.to_string()).collect() };
    let exe = std::env::current_exe().unwrap();
    let seed = get_seed();
    let per: u64 = std::env::var("VERIF_SELFTEST_RUNS").ok().and_then(|s| s.parse().ok()).unwrap_or(320);
    let mut bad = 0;
    for id in &ids {
        let collect = |chunks: u64| -> Vec<String> {
            let each = per / chunks;
            let mut kids = Vec::new();
            for c in 0..chunks {
                kids.push(
                    Command::new(&exe)
                        .args(["selftest", "logs", id, &seed.to_string(), &(c * each).to_string(), &each.to_string()])
                        .stdout(Stdio::piped())
                        .spawn()
                        .unwrap(),
                );
            }
            let mut lines = Vec::new();
            for k in kids {
                let o = k.wait_with_output().unwrap();
                lines.extend(String::from_utf8_lossy(&o.stdout).lines().map(|s| s.to_string()));
            }
            lines.sort_by_key(|l| l.split(' ').next().unwrap().parse::<u64>().unwrap_or(0));
            lines
        };
        let a = collect(16);
        let b = collect(16);
        let c = collect(1);
        let n = a.len();
        let mism = (0..n).filter(|&i| a.get(i) != b.get(i) || a.get(i) != c.get(i)).count() + if b.len() != n || c.len() != n { 1 } else { 0 };
        println!("determinism {id}: {n} seeds x 3 executions (2x16 processes, 1x1 process): {mism} mismatches");
        if mism > 0 {
            bad += 1;
            for i in 0..n {
                if a.get(i) != b.get(i) || a.get(i) != c.get(i) {
                    println!("  run {i}: {:?} {:?} {:?}", a.get(i), b.get(i), c.get(i));
                    break;
                }
            }
        }
    }
    if bad > 0 {
        2
    } else {
        0
    }
}
