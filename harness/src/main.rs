fn main() { println!("hello"); }
