//! tcsim — deterministic simulation with fault injection for TaskChampion.
//!
//!   tcsim check <ID> <quick|thorough>      run a check (parent: spawns worker processes)
//!   tcsim worker <ID> <tier> <seed> <first> <count> <stride>   (internal) execute runs
//!   tcsim replay <file>                    re-execute a replay file in this process
//!   tcsim selftest determinism [ID…]       run seeds twice in separate processes, compare logs
//!
//! Exit codes: 0 held / only known findings; 1 violation (prints `VIOLATION property=… replay=…`);
//! 2 harness error.

mod exec;
mod fam_a;
mod fam_b;
mod fam_c;
mod fam_d;
mod fam_e;
mod httpd;
mod interpose;
mod model;
mod pool;
mod rng;
mod simserver;
mod simstorage;
mod taskmodel;

use serde::{Deserialize, Serialize};
use std::collections::BTreeMap;

#[derive(Clone, Debug, Serialize, Deserialize, PartialEq, Eq)]
pub struct Violation {
    /// which oracle fired, e.g. "convergence", "invariant", "conservation.lost"
    pub oracle: String,
    /// discriminators that, together with the oracle, identify the violation class
    pub sig: String,
    pub detail: String,
}

impl Violation {
    pub fn class(&self) -> String {
        format!("{}|{}", self.oracle, self.sig)
    }
}

#[derive(Clone, Debug, Default, Serialize, Deserialize)]
pub struct RunResult {
    pub violations: Vec<Violation>,
    pub trace_hash: u64,
    pub state_hash: u64,
    pub fired: BTreeMap<String, u64>,
    pub probes: BTreeMap<String, u64>,
    pub points: BTreeMap<String, u64>,
    pub sim_seconds: f64,
    pub steps: u64,
    /// did the property's own rare condition occur in this run
    pub nontrivial: bool,
    /// number of executions this run stands for (fault sweeps execute many per scenario)
    pub evals: u64,
    /// a textual event log (only filled when requested: replay / determinism selftest)
    pub log: Vec<String>,
}

/// Static description of one check.
pub struct CheckDef {
    pub id: &'static str,
    pub level: &'static str,
    pub runs_quick: u64,
    pub runs_thorough: u64,
    pub rule: &'static str,
    pub gen: fn(seed: u64, i: u64, thorough: bool) -> serde_json::Value,
    pub run: fn(sc: &serde_json::Value, want_log: bool) -> RunResult,
    pub shrink: fn(sc: &serde_json::Value) -> Vec<serde_json::Value>,
    pub real: &'static [&'static str],
    pub stub: &'static [&'static str],
    pub assumptions: &'static [&'static str],
}

pub fn checks() -> Vec<CheckDef> {
    let mut v = Vec::new();
    v.extend(fam_a::checks());
    v.extend(fam_c::checks());
    v.extend(fam_b::checks());
    v.extend(fam_d::checks());
    v.extend(fam_e::checks());
    v
}

pub fn find_check(id: &str) -> Option<CheckDef> {
    checks().into_iter().find(|c| c.id == id)
}

pub const DEFAULT_SEED: u64 = 20260923;

fn main() {
    // the HTTP client must talk to the loopback listener directly
    for v in ["HTTP_PROXY", "http_proxy", "HTTPS_PROXY", "https_proxy", "ALL_PROXY", "all_proxy"] {
        std::env::remove_var(v);
    }
    let args: Vec<String> = std::env::args().collect();
    let code = match args.get(1).map(|s| s.as_str()) {
        Some("check") => pool::cmd_check(&args[2..]),
        Some("worker") => pool::cmd_worker(&args[2..]),
        Some("replay") => pool::cmd_replay(&args[2..]),
        Some("selftest") => pool::cmd_selftest(&args[2..]),
        Some("gen") => pool::cmd_gen(&args[2..]),
        Some("handle17") => fam_c::handle17_main(),
        Some("victim") => fam_a::victim_main(args.get(2).map(|s| s.as_str()).unwrap_or("")),
        _ => {
            eprintln!("usage: tcsim check <ID> <quick|thorough> | replay <file> | selftest determinism [ID…]");
            2
        }
    };
    std::process::exit(code);
}
