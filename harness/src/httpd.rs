//! A protocol-conformant sync server (docs/src/http.md) behind a hand-written HTTP/1.1 listener on
//! the loopback interface, for the HTTP client leg. One request per connection
//! (`Connection: close`); the simulator has at most one request in flight, and every fault is
//! decided by the harness (a queue of per-request faults), so runs stay deterministic.

use crate::rng::Rng;
use std::collections::VecDeque;
use std::io::{Read, Write};
use std::net::{TcpListener, TcpStream};
use std::sync::atomic::{AtomicBool, Ordering};
use std::sync::{Arc, Mutex};
use uuid::Uuid;

#[derive(Clone, Debug, PartialEq)]
pub enum HttpFault {
    /// close the connection without processing the request
    DropBefore,
    /// process the request, then close the connection without answering
    DropAfter,
    /// answer 500
    Status500,
    /// get-child-version only: flip one byte of the body at this position (mod length) with this mask
    FlipByte(usize, u8),
    /// get-child-version only: cut the body to this length (mod length)
    Truncate(usize),
    /// get-child-version only: answer with the complete, genuine response for this other parent
    ReplayOtherParent(Uuid),
    /// get-child-version only: keep the headers, use the body of the version with this other parent
    SwapBody(Uuid),
    /// snapshot only: flip a byte
    FlipSnapshotByte(usize, u8),
}

#[derive(Clone, Debug)]
pub struct LoggedRequest {
    pub method: String,
    pub path: String,
    pub client_id: Option<String>,
    pub content_type: Option<String>,
    pub body: Vec<u8>,
}

#[derive(Clone)]
pub struct HttpState {
    /// (version id, parent id, sealed bytes)
    pub versions: Vec<(Uuid, Uuid, Vec<u8>)>,
    pub latest: Uuid,
    pub snapshot: Option<(Uuid, Vec<u8>)>,
    pub rng: Rng,
    /// 0 never, 1 seeded, 2 always high
    pub urgency_mode: u8,
    pub faults: VecDeque<HttpFault>,
    pub log: Vec<LoggedRequest>,
    pub protocol_errors: Vec<String>,
}

impl HttpState {
    pub fn new(seed: u64, urgency_mode: u8) -> HttpState {
        HttpState { versions: vec![], latest: Uuid::nil(), snapshot: None, rng: Rng::new(seed), urgency_mode, faults: VecDeque::new(), log: vec![], protocol_errors: vec![] }
    }
    fn new_id(&mut self) -> Uuid {
        let mut b = [0u8; 16];
        self.rng.fill(&mut b);
        b[6] = (b[6] & 0x0f) | 0x40;
        b[8] = (b[8] & 0x3f) | 0x80;
        Uuid::from_bytes(b)
    }
}

pub struct Httpd {
    pub state: Arc<Mutex<HttpState>>,
    pub port: u16,
    stop: Arc<AtomicBool>,
    thread: Option<std::thread::JoinHandle<()>>,
}

struct Resp {
    status: u16,
    headers: Vec<(String, String)>,
    body: Vec<u8>,
}

fn reason(s: u16) -> &'static str {
    match s {
        200 => "OK",
        400 => "Bad Request",
        404 => "Not Found",
        409 => "Conflict",
        410 => "Gone",
        _ => "Internal Server Error",
    }
}

const HS: &str = "application/vnd.taskchampion.history-segment";
const SN: &str = "application/vnd.taskchampion.snapshot";

fn handle(st: &mut HttpState, req: &LoggedRequest, fault: &Option<HttpFault>) -> Resp {
    let plain = |status: u16| Resp { status, headers: vec![], body: vec![] };
    if req.client_id.as_deref().and_then(|c| Uuid::parse_str(c).ok()).is_none() {
        st.protocol_errors.push(format!("{} {}: missing or malformed X-Client-Id", req.method, req.path));
        return plain(400);
    }
    let path = req.path.trim_start_matches('/');
    let parts: Vec<&str> = path.split('/').collect();
    match (req.method.as_str(), parts.as_slice()) {
        ("POST", ["v1", "client", "add-version", parent]) => {
            let Ok(parent) = Uuid::parse_str(parent) else { return plain(400) };
            if req.content_type.as_deref() != Some(HS) {
                st.protocol_errors.push(format!("add-version with content-type {:?}", req.content_type));
                return plain(400);
            }
            if !st.latest.is_nil() && parent != st.latest {
                return Resp { status: 409, headers: vec![("X-Parent-Version-Id".into(), st.latest.to_string())], body: vec![] };
            }
            let id = st.new_id();
            st.versions.push((id, parent, req.body.clone()));
            st.latest = id;
            let mut headers = vec![("X-Version-Id".to_string(), id.to_string())];
            let u = match st.urgency_mode {
                0 => 0,
                2 => 2,
                _ => {
                    let x = st.rng.below(10);
                    if x < 6 {
                        0
                    } else if x < 8 {
                        1
                    } else {
                        2
                    }
                }
            };
            if u == 1 {
                headers.push(("X-Snapshot-Request".into(), "urgency=low".into()));
            } else if u == 2 {
                headers.push(("X-Snapshot-Request".into(), "urgency=high".into()));
            }
            Resp { status: 200, headers, body: vec![] }
        }
        ("GET", ["v1", "client", "get-child-version", parent]) => {
            let Ok(parent) = Uuid::parse_str(parent) else { return plain(400) };
            let find = |st: &HttpState, p: Uuid| st.versions.iter().find(|v| v.1 == p).cloned();
            let (lookup, swap_body) = match fault {
                Some(HttpFault::ReplayOtherParent(q)) => (*q, None),
                Some(HttpFault::SwapBody(q)) => (parent, Some(*q)),
                _ => (parent, None),
            };
            match find(st, lookup) {
                None => plain(404),
                Some((id, p, mut body)) => {
                    if let Some(q) = swap_body {
                        if let Some((_, _, b2)) = find(st, q) {
                            body = b2;
                        }
                    }
                    match fault {
                        Some(HttpFault::FlipByte(i, m)) if !body.is_empty() => {
                            let k = i % body.len();
                            body[k] ^= if *m == 0 { 1 } else { *m };
                        }
                        Some(HttpFault::Truncate(n)) if !body.is_empty() => {
                            let k = n % body.len();
                            body.truncate(k);
                        }
                        _ => {}
                    }
                    Resp { status: 200, headers: vec![("Content-Type".into(), HS.into()), ("X-Version-Id".into(), id.to_string()), ("X-Parent-Version-Id".into(), p.to_string())], body }
                }
            }
        }
        ("POST", ["v1", "client", "add-snapshot", version]) => {
            let Ok(version) = Uuid::parse_str(version) else { return plain(400) };
            if req.content_type.as_deref() != Some(SN) {
                st.protocol_errors.push(format!("add-snapshot with content-type {:?}", req.content_type));
                return plain(400);
            }
            if !st.versions.iter().any(|v| v.0 == version) {
                return plain(400);
            }
            st.snapshot = Some((version, req.body.clone()));
            plain(200)
        }
        ("GET", ["v1", "client", "snapshot"]) => match st.snapshot.clone() {
            None => plain(404),
            Some((v, mut body)) => {
                if let Some(HttpFault::FlipSnapshotByte(i, m)) = fault {
                    if !body.is_empty() {
                        let k = i % body.len();
                        body[k] ^= if *m == 0 { 1 } else { *m };
                    }
                }
                Resp { status: 200, headers: vec![("Content-Type".into(), SN.into()), ("X-Version-Id".into(), v.to_string())], body }
            }
        },
        _ => {
            st.protocol_errors.push(format!("unknown endpoint {} {}", req.method, req.path));
            plain(404)
        }
    }
}

fn read_request(s: &mut TcpStream) -> Option<LoggedRequest> {
    let mut buf = Vec::new();
    let mut tmp = [0u8; 8192];
    let head_end;
    loop {
        let n = s.read(&mut tmp).ok()?;
        if n == 0 {
            return None;
        }
        buf.extend_from_slice(&tmp[..n]);
        if let Some(p) = buf.windows(4).position(|w| w == b"\r\n\r\n") {
            head_end = p + 4;
            break;
        }
        if buf.len() > 1 << 20 {
            return None;
        }
    }
    let head = String::from_utf8_lossy(&buf[..head_end]).to_string();
    let mut lines = head.split("\r\n");
    let first = lines.next()?;
    let mut it = first.split(' ');
    let method = it.next()?.to_string();
    let path = it.next()?.to_string();
    let mut content_length = 0usize;
    let mut client_id = None;
    let mut content_type = None;
    for l in lines {
        if let Some((k, v)) = l.split_once(':') {
            let v = v.trim().to_string();
            match k.to_ascii_lowercase().as_str() {
                "content-length" => content_length = v.parse().unwrap_or(0),
                "x-client-id" => client_id = Some(v),
                "content-type" => content_type = Some(v),
                _ => {}
            }
        }
    }
    let mut body = buf[head_end..].to_vec();
    while body.len() < content_length {
        let n = s.read(&mut tmp).ok()?;
        if n == 0 {
            break;
        }
        body.extend_from_slice(&tmp[..n]);
    }
    Some(LoggedRequest { method, path, client_id, content_type, body })
}

impl Httpd {
    pub fn start(state: HttpState) -> std::io::Result<Httpd> {
        let listener = TcpListener::bind("127.0.0.1:0")?;
        let port = listener.local_addr()?.port();
        let state = Arc::new(Mutex::new(state));
        let stop = Arc::new(AtomicBool::new(false));
        let (st2, stop2) = (state.clone(), stop.clone());
        let thread = std::thread::spawn(move || {
            for conn in listener.incoming() {
                if stop2.load(Ordering::SeqCst) {
                    break;
                }
                let Ok(mut s) = conn else { continue };
                let _ = s.set_read_timeout(Some(std::time::Duration::from_secs(5)));
                let Some(req) = read_request(&mut s) else { continue };
                let mut st = st2.lock().unwrap();
                st.log.push(req.clone());
                let fault = st.faults.pop_front();
                if fault == Some(HttpFault::DropBefore) {
                    continue;
                }
                let resp = if fault == Some(HttpFault::Status500) { Resp { status: 500, headers: vec![], body: vec![] } } else { handle(&mut st, &req, &fault) };
                drop(st);
                if fault == Some(HttpFault::DropAfter) {
                    continue;
                }
                let mut out = format!("HTTP/1.1 {} {}\r\nConnection: close\r\nContent-Length: {}\r\n", resp.status, reason(resp.status), resp.body.len());
                for (k, v) in &resp.headers {
                    out.push_str(&format!("{k}: {v}\r\n"));
                }
                out.push_str("\r\n");
                let _ = s.write_all(out.as_bytes());
                let _ = s.write_all(&resp.body);
                let _ = s.flush();
            }
        });
        Ok(Httpd { state, port, stop, thread: Some(thread) })
    }
    pub fn url(&self) -> String {
        format!("http://127.0.0.1:{}/", self.port)
    }
}

impl Drop for Httpd {
    fn drop(&mut self) {
        self.stop.store(true, Ordering::SeqCst);
        let _ = TcpStream::connect(("127.0.0.1", self.port));
        if let Some(t) = self.thread.take() {
            let _ = t.join();
        }
    }
}
