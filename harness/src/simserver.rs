//! `SimServer`: M-chain behind the public `Server` trait. Every request is a scheduling point
//! and a fault point. The server also evaluates the oracles that are naturally observed at the
//! server: wire format of every version sent (C14), snapshot content (C12).

use crate::exec::{yield_point, Decision};
use crate::model::{self, AddResult, Chain};
use crate::rng::Rng;
use crate::Violation;
use async_trait::async_trait;
use std::cell::RefCell;
use std::collections::BTreeMap;
use std::rc::Rc;
use taskchampion::server::{AddVersionResult, GetVersionResult, HistorySegment, Server, Snapshot, SnapshotUrgency, VersionId};
use taskchampion::Error;
use uuid::Uuid;

type Result<T> = std::result::Result<T, Error>;

#[derive(Clone, Debug)]
pub enum SrvEvent {
    Add { node: usize, parent: Uuid, result: AddResult, urgency: u8 },
    GetChild { node: usize, parent: Uuid, found: Option<Uuid> },
    AddSnapshot { node: usize, version: Uuid },
    GetSnapshot { node: usize, found: Option<Uuid> },
}

#[derive(Clone)]
pub struct ServerWorld {
    pub chain: Chain,
    pub rng: Rng,
    /// 0 = always None, 1 = random, 2 = always High, 3 = always Low
    pub urgency_mode: u8,
    pub events: Vec<SrvEvent>,
    pub violations: Vec<Violation>,
    /// discard versions before a snapshot once it is stored (as a real server may)
    pub discard_on_snapshot: bool,
    pub counters: BTreeMap<&'static str, u64>,
    /// per node: avoid_snapshots value of its sync in flight (for the urgency oracle)
    pub avoid: BTreeMap<usize, bool>,
    /// per node: (version id, urgency) of accepted add_versions whose snapshot decision is pending
    pub expect_snapshot: BTreeMap<usize, Option<(Uuid, bool)>>,
    /// real backends (family D): add_version calls whose outcome was never learnt
    pub maybes: Vec<crate::fam_d::Maybe>,
    /// real backends: snapshots stored (acknowledged) / possibly stored
    pub snapshots_stored: Vec<(Uuid, Vec<u8>)>,
    pub snapshots_maybe: Vec<(Uuid, Vec<u8>)>,
    /// apply the wire-format / snapshot-content oracles to what passes through a proxy
    pub check_format: bool,
    pub check_snapshots: bool,
}

impl ServerWorld {
    pub fn new(seed: u64, urgency_mode: u8, discard_on_snapshot: bool) -> ServerWorld {
        ServerWorld {
            chain: Chain::default(),
            rng: Rng::new(seed),
            urgency_mode,
            events: Vec::new(),
            violations: Vec::new(),
            discard_on_snapshot,
            counters: BTreeMap::new(),
            avoid: BTreeMap::new(),
            expect_snapshot: BTreeMap::new(),
            maybes: Vec::new(),
            snapshots_stored: Vec::new(),
            snapshots_maybe: Vec::new(),
            check_format: true,
            check_snapshots: true,
        }
    }
    fn count(&mut self, k: &'static str) {
        *self.counters.entry(k).or_insert(0) += 1;
    }
    pub fn new_version_id(&mut self) -> Uuid {
        let mut b = [0u8; 16];
        self.rng.fill(&mut b);
        b[6] = (b[6] & 0x0f) | 0x40;
        b[8] = (b[8] & 0x3f) | 0x80;
        Uuid::from_bytes(b)
    }
    fn violation(&mut self, oracle: &str, sig: String, detail: String) {
        self.violations.push(Violation { oracle: oracle.to_string(), sig, detail });
    }

    /// Called when node `n`'s sync call has returned. A snapshot that was due for the last
    /// accepted version but did not arrive is only counted: the property says a snapshot is
    /// produced *only when* the urgency meets the threshold, not that it always is.
    pub fn sync_finished(&mut self, node: usize, ok: bool) {
        if let Some(Some((_vid, due))) = self.expect_snapshot.remove(&node) {
            if due && ok {
                self.count("snapshot.due_but_not_sent");
            }
        }
    }

    pub fn do_add_version(&mut self, node: usize, parent: Uuid, bytes: Vec<u8>) -> (AddResult, u8) {
        // a snapshot that was due for a previous version of this sync cannot be made any more
        // (the replica still had operations to send, so its state was not that version's)
        self.expect_snapshot.remove(&node);
        if node != usize::MAX {
            if let Err(e) = model::decode_version(&bytes, true) {
                self.violation("format.send", "format".into(), format!("node {node} sent an undocumented version document: {e}"));
            }
        }
        let id = self.new_version_id();
        let r = self.chain.add(parent, id, bytes, node);
        let urgency = match (&r, self.urgency_mode) {
            (AddResult::Expected(_), _) => 0,
            (_, 0) => 0,
            (_, 2) => 2,
            (_, 3) => 1,
            _ => {
                let x = self.rng.below(10);
                if x < 6 {
                    0
                } else if x < 8 {
                    1
                } else {
                    2
                }
            }
        };
        if let AddResult::Ok(v) = &r {
            let avoid = self.avoid.get(&node).copied().unwrap_or(false);
            let due = if avoid { urgency >= 2 } else { urgency >= 1 };
            self.expect_snapshot.insert(node, Some((*v, due)));
            self.count("add_version.ok");
        } else {
            self.count("add_version.rejected");
        }
        self.events.push(SrvEvent::Add { node, parent, result: r.clone(), urgency });
        (r, urgency)
    }

    pub fn do_get_child(&mut self, node: usize, parent: Uuid) -> Option<(Uuid, Uuid, Vec<u8>)> {
        let r = self.chain.child_of(parent).map(|v| (v.id, v.parent, v.bytes.clone()));
        self.events.push(SrvEvent::GetChild { node, parent, found: r.as_ref().map(|x| x.0) });
        self.count(if r.is_some() { "get_child.found" } else { "get_child.none" });
        r
    }

    pub fn do_add_snapshot(&mut self, node: usize, version: Uuid, bytes: Vec<u8>) {
        self.count("add_snapshot");
        self.events.push(SrvEvent::AddSnapshot { node, version });
        match self.expect_snapshot.remove(&node) {
            Some(Some((vid, due))) => {
                if vid != version {
                    self.violation(
                        "snapshot.version",
                        "wrong-version".into(),
                        format!("node {node} uploaded a snapshot for {version} but its accepted version was {vid}"),
                    );
                }
                if !due {
                    self.violation(
                        "snapshot.urgency",
                        "unwanted".into(),
                        format!("node {node} uploaded a snapshot for {version} although the urgency was below its threshold"),
                    );
                }
            }
            _ => {
                self.violation(
                    "snapshot.urgency",
                    "unsolicited".into(),
                    format!("node {node} uploaded a snapshot for {version} without a preceding accepted version"),
                );
            }
        }
        // content oracle: the snapshot must be exactly the replay of the chain up to `version`
        match (model::decode_snapshot(&bytes), self.chain.state_at_version(version)) {
            (Ok(got), Ok(exp)) => {
                if got != exp {
                    let later = self
                        .chain
                        .index_of(version)
                        .map(|i| i + 1 < self.chain.versions.len())
                        .unwrap_or(false);
                    self.violation(
                        "snapshot.content",
                        "content".into(),
                        format!(
                            "snapshot for version {version} from node {node} differs from chain replay (later versions exist: {later}):\n  snapshot: {}\n  replay:   {}",
                            model::fmt_taskset(&got),
                            model::fmt_taskset(&exp)
                        ),
                    );
                }
            }
            (Err(e), _) => self.violation("snapshot.content", "undecodable".into(), format!("snapshot from node {node} for {version}: {e}")),
            (_, Err(e)) => self.violation("snapshot.content", "unknown-version".into(), format!("snapshot from node {node}: {e}")),
        }
        let newer = match &self.chain.snapshot {
            Some((old, _)) => self.chain.index_of(version) >= self.chain.index_of(*old),
            None => true,
        };
        if newer && self.chain.index_of(version).is_some() {
            self.chain.snapshot = Some((version, bytes));
            if self.discard_on_snapshot {
                // keep the snapshot's own version retrievable as "child of its parent" is not
                // needed by anybody who starts from the snapshot: discard everything up to and
                // including it
                self.chain.discarded_before = self.chain.index_of(version).unwrap() + 1;
            }
        }
    }

    pub fn do_get_snapshot(&mut self, node: usize) -> Option<(Uuid, Vec<u8>)> {
        let r = self.chain.snapshot.clone();
        self.events.push(SrvEvent::GetSnapshot { node, found: r.as_ref().map(|x| x.0) });
        self.count(if r.is_some() { "get_snapshot.found" } else { "get_snapshot.none" });
        r
    }
}

pub struct SimServer {
    pub node: usize,
    pub world: Rc<RefCell<ServerWorld>>,
}

fn srv_err(what: &str) -> Error {
    Error::Server(format!("sim: injected fault at {what}"))
}

fn urg(u: u8) -> SnapshotUrgency {
    match u {
        0 => SnapshotUrgency::None,
        1 => SnapshotUrgency::Low,
        _ => SnapshotUrgency::High,
    }
}

#[async_trait(?Send)]
impl Server for SimServer {
    async fn add_version(&mut self, parent_version_id: VersionId, history_segment: HistorySegment) -> Result<(AddVersionResult, SnapshotUrgency)> {
        let d = yield_point("srv.add_version").await;
        if d == Decision::FailBefore {
            return Err(srv_err("srv.add_version"));
        }
        let (r, u) = self.world.borrow_mut().do_add_version(self.node, parent_version_id, history_segment);
        if d == Decision::FailAfter {
            // the reply is lost: the replica learns nothing, so no snapshot can be expected
            self.world.borrow_mut().expect_snapshot.remove(&self.node);
            return Err(srv_err("srv.add_version"));
        }
        Ok((
            match r {
                AddResult::Ok(v) => AddVersionResult::Ok(v),
                AddResult::Expected(v) => AddVersionResult::ExpectedParentVersion(v),
            },
            urg(u),
        ))
    }

    async fn get_child_version(&mut self, parent_version_id: VersionId) -> Result<GetVersionResult> {
        let d = yield_point("srv.get_child_version").await;
        if d == Decision::FailBefore {
            return Err(srv_err("srv.get_child_version"));
        }
        let r = self.world.borrow_mut().do_get_child(self.node, parent_version_id);
        if d == Decision::FailAfter {
            return Err(srv_err("srv.get_child_version"));
        }
        Ok(match r {
            Some((version_id, parent_version_id, history_segment)) => GetVersionResult::Version { version_id, parent_version_id, history_segment },
            None => GetVersionResult::NoSuchVersion,
        })
    }

    async fn add_snapshot(&mut self, version_id: VersionId, snapshot: Snapshot) -> Result<()> {
        let d = yield_point("srv.add_snapshot").await;
        if d == Decision::FailBefore {
            self.world.borrow_mut().expect_snapshot.remove(&self.node);
            return Err(srv_err("srv.add_snapshot"));
        }
        self.world.borrow_mut().do_add_snapshot(self.node, version_id, snapshot);
        if d == Decision::FailAfter {
            return Err(srv_err("srv.add_snapshot"));
        }
        Ok(())
    }

    async fn get_snapshot(&mut self) -> Result<Option<(VersionId, Snapshot)>> {
        let d = yield_point("srv.get_snapshot").await;
        if d == Decision::FailBefore {
            return Err(srv_err("srv.get_snapshot"));
        }
        let r = self.world.borrow_mut().do_get_snapshot(self.node);
        if d == Decision::FailAfter {
            return Err(srv_err("srv.get_snapshot"));
        }
        Ok(r)
    }
}
