#!/usr/bin/env python3
"""Regenerates /verif/MANIFEST.json from the table below (kept valid at all times)."""
import json, subprocess

props = [json.loads(l) for l in open('/verif/properties.jsonl')]

def repo_fix_and_hook_commits():
    out = subprocess.run(['git', '-C', '/repo', 'log', '--format=%h %s'], capture_output=True, text=True).stdout
    hooks = [l.split()[0] for l in out.splitlines() if l.split(' ', 1)[1].startswith('verif-hook')]
    return hooks

CHECKS = {
 'C03': dict(level='exploration', design='6 C03', technique='deterministic simulation: round-structured histories re-executed from a copied common state under every order of first syncs, compared with a documented-winner model and with each other',
   text='Rounds of concurrent batches by 2-3 real replicas from a common state; each round is executed under all N! orders of first syncs plus seeded interleaved catch-up syncs; every execution must equal M-winner (delete beats update, greatest timestamp wins per property, creations kept, later rounds override earlier ones whatever the timestamps) and all executions must agree.',
   note='Trusted: M-winner written from docs; batches restricted to forms with an unambiguous documented winner; on exact timestamp ties any tied value is accepted but must be the same in all orders.'),
 'C01': dict(level='exploration', design='6 C01', technique='deterministic simulation: seeded scenarios of 1-5 real Replicas against a reference chain server, invariant + convergence + conservation oracles, delta-debugged replay',
   text='Seeded exploration of histories (edits, syncs, multi-version syncs, tied/decreasing timestamps, create-delete-create) over the real Replica/TaskDb/InMemoryStorage against an executable reference server; after every action the replica invariant is checked against an independent replay of the stored versions, at quiescence every replica must equal that replay, and every committed update must be accounted for exactly once. Evidence over the sampled seeds, not proof.',
   note='Trusted: the harness reference models (M-apply, M-chain, strict version decoder); SimServer stands in for the server; replicas only create valid operations (intents are resolved through the TaskData API).'),
 'C02': dict(level='exploration', design='6 C02', technique='deterministic simulation: seeded interleaving of concurrent sync calls at single-server-request granularity, same oracles as C01 plus every-sync-succeeds',
   text='2-4 real replicas run sync concurrently inside the seeded executor; every Server request is a scheduling point, three scheduler bias modes make rejected versions common (about one run in five has a rejection). Oracles: every sync returns Ok without injected faults, replica invariant after each sync, convergence to the replay of the chain, conservation (a change that lost a conflict is never sent).',
   note='Trusted: reference models; SimServer is linearizable per request, as the documented protocol requires of a correct server.'),
}

checks = []
for pid, c in CHECKS.items():
    checks.append({
        'property_id': pid,
        'quick_cmd': f'/verif/check {pid} quick',
        'thorough_cmd': f'/verif/check {pid} thorough',
        'evidence_file': f'/verif/evidence/{pid}.json',
        'replay_cmd_template': f'/verif/check {pid} --replay {{path}}',
        'engine': 'tcsim',
        'level_claimed': {'category': c['level'], 'text': c['text'], 'design_ref': 'DESIGN.md section ' + c['design']},
        'level_note': c['note'],
        'technique': c['technique'],
    })

NA = {
 'C18': 'pure function of stored key/value input: no schedule, clock, fault or interleaving can change whether a read accessor panics; deciding it is input generation (fuzzing/PBT), not deterministic simulation (DESIGN.md section 9)',
}
na = []
for p in props:
    if p['id'] in CHECKS:
        continue
    na.append({'property_id': p['id'], 'reason': NA.get(p['id'], 'check not built yet (construction in progress, see DESIGN.md section 10)')})

m = {
 'version': 1,
 'setup_cmd': 'cd /verif/harness && CARGO_NET_OFFLINE=true cargo build --release --offline',
 'hooks': {
   'guard': 'gothenburgbitfactory_taskchampion_verif',
   'enable': 'rustflags --cfg gothenburgbitfactory_taskchampion_verif, set only by /verif/harness/.cargo/config.toml (the harness depends on /repo by path, so every check rebuilds /repo\'s working tree with the hooks on)',
   'baseline_off_cmd': 'cd /repo && cargo test --workspace --no-fail-fast --offline',
   'source_commits': repo_fix_and_hook_commits(),
   'add_only': True,
 },
 'engines': [{'name': 'tcsim', 'path': '/verif/harness', 'serves_properties': sorted(CHECKS), 'kind_free_text': 'deterministic simulation with fault injection: one process, seeded executor over the real Replica/TaskDb/Storage/Server code; worker processes for parallelism; replay files are minimised scenarios'}],
 'checks': checks,
 'not_applicable': na,
 'notes': 'Genuine defects found and repaired are listed in /verif/known_findings.json ("fixed"). Replay files are written to /verif/replays/.',
}
json.dump(m, open('/verif/MANIFEST.json', 'w'), indent=1)
print('checks:', sorted(CHECKS), 'not_applicable:', [n['property_id'] for n in na])
