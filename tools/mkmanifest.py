#!/usr/bin/env python3
"""Regenerates /verif/MANIFEST.json from the table below (kept valid at all times)."""
import json, subprocess

props = [json.loads(l) for l in open('/verif/properties.jsonl')]

def repo_fix_and_hook_commits():
    out = subprocess.run(['git', '-C', '/repo', 'log', '--format=%h %s'], capture_output=True, text=True).stdout
    hooks = [l.split()[0] for l in out.splitlines() if l.split(' ', 1)[1].startswith('verif-hook')]
    return hooks

CHECKS = {
 'C13': dict(level='fault_enumeration', design='6 C13', technique='deterministic simulation with fault injection on stored data: independent re-implementation of the documented sealing (M-seal) opens everything that leaves the host; every stored value is then corrupted (all single-byte modifications, all truncations, swaps, re-sealing under other secret/salt/version id, replayed HTTP response) and every fetch must fail',
   text='What the object-store server puts into the store, what the git server writes to files and history, and what the HTTP client sends are opened by an independent implementation of docs/src/encryption.md and must yield the plaintext handed in (format byte, fresh nonces, no plaintext). Each sampled stored value is then attacked exhaustively per byte position and truncation length, plus swapped / foreign-key / other-salt / other-version-id / garbage data and, on HTTP, a full genuine response for another parent; the next get_child_version / get_snapshot must return an error.',
   note='M-seal uses ring primitives but none of server/encryption.rs. Secrets include ones ending in white space; on an empty bucket a gate plays a second client whose salt lands right before the first constructor\'s compare-and-swap. Values and configurations are sampled (each new secret/salt costs a 90 ms key derivation); per attacked value the position sweep is exhaustive in the thorough tier and for a quarter of the values in the quick tier.'),
 'C08': dict(level='exploration', design='6 C08', technique='deterministic simulation (refinement): seeded protocol call sequences through 1-3 handles on each real backend behind a proxy that compares every reply with the reference chain model; handles reopened at seeded points; whole replicas through the backends',
   text='Every reply of the local, object-store and git (local-only / shared remote) servers to add-version, get-child-version, add-snapshot and get-snapshot is compared with the single-copy chain model (acceptance rule, rejection names latest and changes nothing, child versions byte for byte incl. empty / non-UTF-8 / 1MB payloads, unknown parent, snapshots as stored); a fresh handle re-reads the chain at the end; a third of the runs drive whole replicas through the backend and require convergence with the mirror.',
   note='The HTTP leg runs the real reqwest client against a harness listener implementing docs/src/http.md on a loopback socket (one request in flight); object store in memory via the hook; git uses the real git binary.'),
 'C11': dict(level='fault_enumeration', design='6 C11', technique='deterministic simulation with fault injection: every internal step of add_version/add_snapshot in the local, object-store and git backends (object-store requests; hook failpoints between database statements, git commands and file writes) interrupted with each fault kind; handles reopened; resync, protocol conformance via the proxy, convergence and bounded liveness',
   text='For each sampled sync through a real backend the backend-internal steps are enumerated by a fault-free run and then interrupted one by one (fail before, done-then-fail, stop); afterwards all handles are reopened, the interrupted replica syncs again and must reach the uninterrupted outcome, every reply is checked against the chain model (an unacknowledged version may only appear in full), and all replicas must converge within the liveness bound.',
   note='Process stop inside the local and git backends is an error return at a hook failpoint (no backend code runs after it); kills inside a running git child are not exercised. One recorded known finding (git with shared remote, stop between commit and push).'),
 'C09': dict(level='exploration', design='6 C09', technique='deterministic simulation: 2-4 real CloudServer clients over a gated in-memory object store, every request and list page a scheduling point; chain-specific linearizability oracle over the invoke/return history and the log of compare-and-swaps on latest',
   text='Seeded interleavings at single get/put/delete/list-page/compare-and-swap granularity with seeded listing order and page sizes; oracles: one accepted child per parent, accepted on the then-latest, every accepted version on the final chain, reads return only chain versions under the requested parent with the submitted bytes and never before commit, no-such-version and rejections are consistent with what was latest during the call, a fresh client walks the full chain.',
   note='Hook: taskchampion::server::verif (in-memory Service behind a Gate). The object store is linearizable per request; cloud/aws.rs and cloud/gcp.rs adapters never run. No explicit cleanup and no passage of time here (C10); in a quarter of the runs the server\'s own dice start the cleanup that follows an accepted version, which may then only remove leftovers and superseded snapshots.'),
 'C10': dict(level='exploration', design='6 C10', technique='deterministic simulation with fault injection: as C09 plus cleanup runs (explicit and dice-driven) interleaved at request granularity, simulated clock jumps across the retention age, cleanups stopped after any request; store-usability predicate read independently from the object map plus a fresh client',
   text='After every ended (completed or stopped) cleanup and at the end, the object map must still let every client work: the walk back from latest reaches the first version or a version covered by a retained snapshot, snapshots the cleanup kept are usable starting points, and a fresh client gets from snapshot/nil to latest.',
   note='Time jumps only while no client operation is in flight (no request spans 180 days); a snapshot is uploaded by the client that just had its version accepted, as Replica::sync does.'),
 'C17': dict(level='exploration', design='6 C17', technique='deterministic simulation: 2-8 real SqliteStorage handles (threads of one process, or one process each) on one directory, every storage call a scheduling point of the seeded scheduler, real SQLite lock waits issued deliberately (one waiter at a time); linearizability audit of the stored log against a sequential model in commit order',
   text='Each handle has its own connection and actor thread; the seeded scheduler interleaves the handles at single-storage-call granularity and makes BEGIN IMMEDIATE really block behind another handle\'s transaction. Afterwards a fresh handle must find an operation log equal to the successful commits concatenated in the order their commits returned, tasks equal to their one-at-a-time application (undo included), and a duplicate-free working set.',
   note='In three quarters of the runs the handles are futures in one process (separate connections and threads); in one quarter every handle is an OS process of its own (tcsim handle17) stepped by the same scheduler over pipes, sharing only the database files and their locks. Who waits for the lock is the simulator\'s choice; two simultaneous waiters are never created because SQLite\'s real-time back-off would choose between them.'),
 'C06': dict(level='fault_enumeration', design='6 C06', technique='deterministic simulation with fault injection over the real SqliteStorage: every storage call of an action interrupted in-process (error / dropped caller), plus victim processes really SIGKILLed at storage-call and write-syscall indices; fresh-handle reopen compared with the recorded transaction-boundary states',
   text='For each sampled action (commit, undo, rebuild, sync, expire) on a SQLite replica the state after each of its transaction commits is recorded through fresh handles; the action is then re-executed from a copy of the directory with an interruption at every storage call (error returned; caller dropped) and, in victim processes, killed by SIGKILL at storage-call indices, right after returning, and at write-class system-call indices inside SQLite\'s commit. A freshly opened store must show exactly the state after the commits that had returned (for write-syscall kills: that or the next boundary), never a partial state, and must open at all.',
   note='Crash model: process stop with completed system calls surviving (what the property states); power loss / lost un-fsynced writes not modelled. Write-class syscalls are intercepted by symbol interposition in the harness binary.'),
 'C16': dict(level='exploration', design='6 C16', technique='deterministic differential simulation: one seeded StorageTxn call sequence applied to InMemoryStorage and SqliteStorage with commit/abandon, close/reopen, historical-schema databases and read-only reopen; every return value and the visible state compared',
   text='Differential execution of contract-respecting call sequences with arbitrary string contents against both storages; SQLite side closed and reopened at seeded points; databases written by the harness with the 0.8/0.9/(0,1)/(0,2) DDL must read back identically after upgrade-on-open; read-only reopen must refuse every mutator and commit while reading the same data.',
   note='Historical DDL reconstructed from schema.rs comments and the 0.8.0 fixture in the unit tests; trailing empty working-set slots are treated as unobservable.'),
 'C15': dict(level='exploration', design='6 C15', technique='deterministic simulation: seeded scripts of status changes, deletions, syncs, undo and rebuilds in both modes; working-set oracle after every rebuild (explicit or implied) and every commit',
   text='Working-set oracle evaluated after every rebuild (explicit, or the one sync and undo perform) and every commit, in all family-A runs and in dedicated scripts that mix both rebuild modes so that prior working sets contain gaps and entries whose task was completed, deleted outright or removed by a sync.',
   note='In-memory storage here; SQLite working-set calls are compared with it in C16. No order is required among simultaneous newcomers.'),
 'C19': dict(level='exploration', design='6 C19', technique='deterministic simulation (clock seam) plus model check: Task-API editing sessions under a simulated clock compared with an independent task model, recorded old values, read-back of tags/annotations/dependencies/UDAs/synthetic tags/dependency map',
   text='Editing sessions of 1-8 mutators with arguments incl. invalid tags, synthetic tags and reserved UDA names, under clock policies forwards/backwards/stuck/jumping years, interleaved with syncs; stored task = held task = model; recorded old values true; reads agree with the model derived from stored data.',
   note='What simulation contributes is the clock seam and the interleaving with syncs; the oracle is a reference model written from docs/src/tasks.md.'),
 'C20': dict(level='exploration', design='6 C20', technique='deterministic simulation (clock seam): expire_tasks under pinned clocks against boundary/unreadable modification times, with concurrent edits on other replicas and all sync orders',
   text='Exactly the tasks with status deleted and readable modified more than 180 days before the caller\'s clock are purged (boundary +-1 s, future, missing, non-numeric, signed, out-of-range values), each recorded as one Delete; at quiescence no purged task exists anywhere although other replicas edited it concurrently.',
   note='Scenarios never re-create a task id after the initial creation.'),
 'C04': dict(level='fault_enumeration', design='6 C04', technique='deterministic simulation with fault injection: per sampled sync, every storage call and server request is interrupted with each of {error before effect, effect then error, process stop}, then resync and compare with the uninterrupted outcome',
   text='For seeded histories the sync under test is first run fault-free to enumerate its interruption points, then re-executed from a copy of the same durable state once per point and fault kind; after each interruption the replica invariant must hold, repeating the sync must give exactly the replica and chain state of the uninterrupted sync with nothing left unsynchronized, and all replicas must then converge with every committed update accounted for once. Exhaustive over the interruption points of each sampled sync; histories are sampled.',
   note='Process stop = the replica future is dropped and only the committed in-memory store survives (SQLite kills are C06). Reference server as in C01. Each server request is additionally failed (before / after effect) while another replica has synchronized since the previous request of the sync under test (fault plus race).'),
 'C05': dict(level='fault_enumeration', design='6 C05', technique='deterministic simulation with fault injection: operation batches (valid or not) checked against the documented operation model after every commit, plus a sweep of every storage call of a commit with error/stop faults for all-or-nothing',
   text='Arbitrary batches (create of existing, update/delete of missing tasks, delete-then-create, removals, undo points) on states produced by seeded histories; after each commit the unsynchronized list must be the old list plus the batch in order and the tasks must equal the reference model applied to base state + unsynchronized operations; a further commit is interrupted at every storage call with each fault kind and the store must be exactly the before- or after-state.',
   note='In-memory storage in this check; SqliteStorage gets the same treatment in C06/C16. Working-set additions are checked by C15.'),
 'C07': dict(level='exploration', design='6 C07', technique='deterministic simulation: seeded scripts of commits, undo, stale undo, undo after sync, with list/return-value/state oracles and conservation at the server',
   text='Seeded scripts on 1-3 syncing replicas; oracles on the fetched undo list, on the unsynchronized list after undo, on the tasks (replica invariant pins them to the earlier state), on return values for fresh/stale/post-sync undo, and at the server that undone operations never arrive.',
   note='Operations are created through the TaskData API; reference server as in C01.'),
 'C12': dict(level='exploration', design='6 C12', technique='deterministic simulation: reference server with seeded snapshot urgency, independent snapshot decoder compared with chain replay, late-joining empty replicas after the server discards old versions',
   text='Every snapshot any replica uploads is inflated and parsed independently at the reference server and compared with the replay of the chain up to its version, and must have been warranted by urgency vs. the replica threshold; new empty replicas joining after the old versions are discarded must reach the full replay; a replica holding data must never ask for a snapshot. Includes Unicode contents, multi-version syncs and (thorough) thousands of tasks.',
   note='Reference server; the property says a snapshot is produced only when urgency meets the threshold, so a missing snapshot is counted, not flagged.'),
 'C14': dict(level='exploration', design='6 C14', technique='deterministic simulation: strict independent decoder on every version sent; foreign client writing the documented grammar with other field orders, whitespace, escapes and timestamp precisions',
   text='Send side checked on every version of every run by a strict serde_json::Value walker (exact keys, RFC 3339 UTC timestamps, order of a replica\'s surviving updates, nothing undone or uncommitted); receive side by a foreign writer whose versions all replicas must apply so as to converge with the reference replay.',
   note='The wire document is {"operations":[…]} as emitted by every released implementation; the docs show a bare array (DESIGN.md section 9).'),
 'C03': dict(level='exploration', design='6 C03', technique='deterministic simulation: round-structured histories re-executed from a copied common state under every order of first syncs, compared with a documented-winner model and with each other',
   text='Rounds of concurrent batches by 2-3 real replicas from a common state; each round is executed under all N! orders of first syncs plus seeded interleaved catch-up syncs; every execution must equal M-winner (delete beats update, greatest timestamp wins per property, creations kept, later rounds override earlier ones whatever the timestamps) and all executions must agree.',
   note='Trusted: M-winner written from docs; batches restricted to forms with an unambiguous documented winner; on exact timestamp ties any tied value is accepted but must be the same in all orders.'),
 'C01': dict(level='exploration', design='6 C01', technique='deterministic simulation: seeded scenarios of 1-5 real Replicas against a reference chain server, invariant + convergence + conservation oracles, delta-debugged replay',
   text='Seeded exploration of histories (edits, syncs, multi-version syncs, tied/decreasing timestamps, create-delete-create) over the real Replica/TaskDb/InMemoryStorage against an executable reference server; after every action the replica invariant is checked against an independent replay of the stored versions, at quiescence every replica must equal that replay, and every committed update must be accounted for exactly once. Evidence over the sampled seeds, not proof.',
   note='Trusted: the harness reference models (M-apply, M-chain, strict version decoder); SimServer stands in for the server; replicas only create valid operations (intents are resolved through the TaskData API).'),
 'C02': dict(level='exploration', design='6 C02', technique='deterministic simulation: seeded interleaving of concurrent sync calls at single-server-request granularity, same oracles as C01 plus every-sync-succeeds',
   text='2-4 real replicas run sync concurrently inside the seeded executor; every Server request is a scheduling point, three scheduler bias modes make rejected versions common (about one run in five has a rejection). Oracles: every sync returns Ok without injected faults, replica invariant after each sync, convergence to the replay of the chain, conservation (a change that lost a conflict is never sent).',
   note='Trusted: reference models; SimServer is linearizable per request, as the documented protocol requires of a correct server.'),
}

checks = []
for pid, c in sorted(CHECKS.items()):
    checks.append({
        'property_id': pid,
        'quick_cmd': f'/verif/check {pid} quick',
        'thorough_cmd': f'/verif/check {pid} thorough',
        'evidence_file': f'/verif/evidence/{pid}.json',
        'replay_cmd_template': f'/verif/check {pid} --replay {{path}}',
        'engine': 'tcsim',
        'level_claimed': {'category': c['level'], 'text': c['text'], 'design_ref': 'DESIGN.md section ' + c['design']},
        'level_note': c['note'],
        'technique': c['technique'],
    })

NA = {
 'C18': 'pure function of stored key/value input: no schedule, clock, fault or interleaving can change whether a read accessor panics; deciding it is input generation (fuzzing/PBT), not deterministic simulation (DESIGN.md section 9)',
}
na = []
for p in props:
    if p['id'] in CHECKS:
        continue
    na.append({'property_id': p['id'], 'reason': NA.get(p['id'], 'check not built yet (construction in progress, see DESIGN.md section 10)')})

m = {
 'version': 1,
 'setup_cmd': 'cd /verif/harness && CARGO_NET_OFFLINE=true cargo build --release --offline',
 'hooks': {
   'guard': 'gothenburgbitfactory_taskchampion_verif',
   'enable': 'rustflags --cfg gothenburgbitfactory_taskchampion_verif, set only by /verif/harness/.cargo/config.toml (the harness depends on /repo by path, so every check rebuilds /repo\'s working tree with the hooks on)',
   'baseline_off_cmd': 'cd /repo && cargo test --workspace --no-fail-fast --offline',
   'source_commits': repo_fix_and_hook_commits(),
   'add_only': True,
 },
 'engines': [{'name': 'tcsim', 'path': '/verif/harness', 'serves_properties': sorted(CHECKS), 'kind_free_text': 'deterministic simulation with fault injection: one process, seeded executor over the real Replica/TaskDb/Storage/Server code; worker processes for parallelism; replay files are minimised scenarios'}],
 'checks': checks,
 'not_applicable': na,
 'notes': 'Genuine defects found and repaired are listed in /verif/known_findings.json ("fixed"). Replay files are written to /verif/replays/.',
}
json.dump(m, open('/verif/MANIFEST.json', 'w'), indent=1)
print('checks:', sorted(CHECKS), 'not_applicable:', [n['property_id'] for n in na])
