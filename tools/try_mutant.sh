#!/bin/sh
# usage: try_mutant.sh <patch.diff> <check id>...   — applies the patch to /repo, runs the checks, reverts
P="$1"; shift
cd /repo || exit 2
git diff --quiet || { echo "/repo is dirty"; exit 2; }
git apply "$P" || { echo "patch does not apply"; exit 2; }
for c in "$@"; do
  echo "=== $c with $(basename $(dirname $P))/$(basename $P)"
  /verif/check $c quick 2>&1 | grep -E "^(VIOLATION|KNOWN|violation class|C[0-9]+:|harness)" | cut -c1-300
done
cd /repo && git checkout -- . && echo reverted; git -C /verif checkout -- evidence 2>/dev/null; find /verif/replays -name "*.json" -delete
