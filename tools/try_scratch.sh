#!/bin/sh
# usage: try_scratch.sh <name> <patch.diff> <check id>...
# Runs checks against a scratch worktree of /repo with the patch applied, building a scratch copy of
# the harness against it, so that several seeded changes can be tried at once and /repo is never
# touched. Everything is removed afterwards.
N="$1"; P="$2"; shift 2
S=/tmp/try/$N
rm -rf "$S"; mkdir -p "$S/out/evidence" "$S/out/replays"
git -C /repo worktree add --detach "$S/repo" HEAD >/dev/null 2>&1 || { echo "worktree failed"; exit 2; }
git -C "$S/repo" apply "$P" || { echo "patch does not apply"; git -C /repo worktree remove --force "$S/repo"; exit 2; }
cp -r /verif/harness "$S/harness"
cp /verif/known_findings.json "$S/out/"
sed -i "s#path = \"/repo\"#path = \"$S/repo\"#" "$S/harness/Cargo.toml"
( cd "$S/harness" && CARGO_NET_OFFLINE=true cargo build --release --offline -j${TRY_JOBS:-8} >"$S/build.log" 2>&1 ) || { echo "BUILD FAILED"; grep -E "^error" -A10 "$S/build.log" | head -40; }
export TCSIM_OUT_DIR="$S/out"
cd /verif
for c in "$@"; do
  echo "=== $c with $N"
  "$S/harness/target/release/tcsim" check $c ${TRY_TIER:-quick} 2>&1 | grep -E "^(VIOLATION|KNOWN|violation class|C[0-9]+:|harness)" | cut -c1-300
done
git -C /repo worktree remove --force "$S/repo"; rm -rf "$S"
