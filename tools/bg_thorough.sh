#!/bin/sh
# run thorough tiers from a snapshot without touching /verif/evidence: tools/bg_thorough.sh C01 C02 ...
mkdir -p out && export TCSIM_OUT_DIR=$PWD/out
cd harness && cargo build --release --offline >/dev/null 2>&1 && cd ..
for c in "$@"; do ./harness/target/release/tcsim check $c thorough | grep -E "^(VIOLATION|KNOWN|violation class|C[0-9]+:)"; done
