#!/bin/sh
# usage: confirm_mutant.sh <worktree> <outdir/X> <demo test name>
# env: DEMO_RUSTFLAGS (e.g. --cfg gothenburgbitfactory_taskchampion_verif), DEMO_TARGET (target dir for the demo build)
# Confirms in a scratch worktree: demo passes unmodified; with the patch: lib tests pass, demo fails.
WT="$1"; D="$2"; NAME="$3"
export CARGO_NET_OFFLINE=true
LIBT="$WT/target"; DEMOT="${DEMO_TARGET:-$WT/target}"
cd "$WT" || exit 2
git checkout -q -- src 2>/dev/null
cp "$D/demo.rs" "tests/$NAME.rs"
R1=$(RUSTFLAGS="${DEMO_RUSTFLAGS:-}" CARGO_TARGET_DIR="$DEMOT" cargo test --offline ${DEMO_ARGS:-} --test "$NAME" 2>&1 | grep -E "^test result" | tail -1)
git apply "$D/patch.diff" || { echo "APPLY FAILED"; exit 2; }
R2=$(CARGO_TARGET_DIR="$LIBT" cargo test --offline --lib 2>&1 | grep -E "^test result" | tail -1)
R3=$(RUSTFLAGS="${DEMO_RUSTFLAGS:-}" CARGO_TARGET_DIR="$DEMOT" cargo test --offline ${DEMO_ARGS:-} --test "$NAME" 2>&1 | grep -E "^test result" | tail -1)
R4=$(CARGO_TARGET_DIR="$LIBT" cargo test --offline --test cross-sync --test update-and-delete-sync --test syncing-proptest 2>&1 | grep -E "^test result" | tr '\n' ';')
git checkout -q -- src; rm -f "tests/$NAME.rs"
echo "{\"demo_unmodified\": \"$R1\", \"lib_with_patch\": \"$R2\", \"demo_with_patch\": \"$R3\", \"integration_with_patch\": \"$R4\", \"demo_rustflags\": \"${DEMO_RUSTFLAGS:-}\"}" > "$D/confirm.json"
cat "$D/confirm.json"
